#[path = "../programs.rs"]
mod programs;
fn main() {
    let name = std::env::args().nth(1).unwrap_or_default();
    if name == "--list" {
        println!("{}", programs::PROGRAMS.join("\n"));
        return;
    }
    std::panic::set_hook(Box::new(|_| {}));
    println!("{}", programs::run(&name));
}
