//! Tiny rayon programs whose observable results are fixed by rayon's documentation. Shared
//! (via #[path]) by /verif/conformance (real rayon-core) and /verif/sim (simulated core).
use rayon::prelude::*;
use std::sync::atomic::{AtomicUsize, Ordering};
use std::sync::Mutex;

pub const PROGRAMS: [&str; 17] = [
    "ordered_collect", "nested_join", "par_bridge_once_each", "build_global_twice", "implicit_then_build_global",
    "install_pool", "panic_propagation", "collect_into_vec_enumerate", "for_each_count", "par_iter_mut",
    "hashbrown_par_iter", "ndarray_axis_par", "configured_global_size", "build_global_after_join",
    "nested_pools", "panic_in_install", "pool_dropped_while_unwinding",
];

fn fib(n: u32) -> u64 {
    if n < 2 {
        return n as u64;
    }
    let (a, b) = rayon::join(|| fib(n - 1), || fib(n - 2));
    a + b
}

pub fn run(name: &str) -> String {
    match name {
        "ordered_collect" => {
            let v: Vec<u64> = (0..2000u64).into_par_iter().map(|x| x * x % 977).collect();
            let s: Vec<u64> = (0..2000u64).map(|x| x * x % 977).collect();
            format!("equal_to_sequential={} len={}", v == s, v.len())
        }
        "nested_join" => format!("fib(16)={}", fib(16)),
        "par_bridge_once_each" => {
            let seen = Mutex::new(Vec::new());
            (0..700u32).par_bridge().for_each(|x| seen.lock().unwrap().push(x));
            let mut v = seen.into_inner().unwrap();
            v.sort();
            let s: u64 = (0..700u32).par_bridge().map(|x| x as u64).sum();
            format!("each_once={} sum={}", v == (0..700).collect::<Vec<u32>>(), s)
        }
        "build_global_twice" => {
            let a = rayon::ThreadPoolBuilder::new().num_threads(2).build_global();
            let b = rayon::ThreadPoolBuilder::new().num_threads(3).build_global();
            format!("first_ok={} second_err={} msg={:?} threads={}", a.is_ok(), b.is_err(), b.err().map(|e| e.to_string()), rayon::current_num_threads())
        }
        "implicit_then_build_global" => {
            let n = rayon::current_num_threads();
            let b = rayon::ThreadPoolBuilder::new().num_threads(n + 1).build_global();
            format!("implicit_positive={} build_err={} still={}", n > 0, b.is_err(), rayon::current_num_threads() == n)
        }
        "install_pool" => {
            let pool = rayon::ThreadPoolBuilder::new().num_threads(3).build().unwrap();
            let outside = rayon::current_thread_index();
            let (inside_n, inside_idx) = pool.install(|| (rayon::current_num_threads(), rayon::current_thread_index()));
            let sum: u64 = pool.install(|| (0..1000u64).into_par_iter().sum());
            format!("outside_idx={outside:?} inside_n={inside_n} inside_idx_lt_n={} pool_n={} sum={sum}", inside_idx.map(|i| i < 3).unwrap_or(false), pool.current_num_threads())
        }
        "panic_propagation" => {
            let r = std::panic::catch_unwind(|| rayon::join(|| 1, || -> i32 { panic!("boom-b") }));
            let r2 = std::panic::catch_unwind(|| (0..100).into_par_iter().for_each(|x| if x == 57 { panic!("boom-57") }));
            let msg = |e: Box<dyn std::any::Any + Send>| e.downcast_ref::<&str>().map(|s| s.to_string()).or(e.downcast_ref::<String>().cloned()).unwrap_or_default();
            format!("join_err={:?} iter_err={:?} after={}", r.err().map(msg), r2.err().map(msg), (0..10).into_par_iter().sum::<i32>())
        }
        "collect_into_vec_enumerate" => {
            let data: Vec<u32> = (0..333).collect();
            let mut out: Vec<(usize, u32)> = Vec::new();
            data.par_iter().enumerate().map(|(i, x)| (i, x * 2)).collect_into_vec(&mut out);
            format!("ordered={}", out.iter().enumerate().all(|(i, (j, x))| i == *j && *x == 2 * i as u32))
        }
        "for_each_count" => {
            let c = AtomicUsize::new(0);
            (0..1234).into_par_iter().for_each(|_| {
                c.fetch_add(1, Ordering::Relaxed);
            });
            format!("count={}", c.load(Ordering::Relaxed))
        }
        "par_iter_mut" => {
            let mut v = vec![1u32; 500];
            v.par_iter_mut().enumerate().for_each(|(i, x)| *x += i as u32);
            format!("ok={}", v.iter().enumerate().all(|(i, x)| *x == 1 + i as u32))
        }
        "hashbrown_par_iter" => {
            let s: hashbrown::HashSet<u64> = (0..900u64).collect();
            let total: u64 = s.par_iter().sum();
            let c = AtomicUsize::new(0);
            s.par_iter().for_each(|_| {
                c.fetch_add(1, Ordering::Relaxed);
            });
            format!("sum={total} count={}", c.load(Ordering::Relaxed))
        }
        "ndarray_axis_par" => {
            use ndarray::parallel::prelude::*;
            use ndarray::{Array2, Axis};
            let a = Array2::from_shape_fn((40, 13), |(i, j)| (i * 13 + j) as u64);
            let mut out: Vec<u64> = Vec::new();
            a.axis_iter(Axis(1)).into_par_iter().enumerate().map(|(i, col)| col.sum() + i as u64).collect_into_vec(&mut out);
            let exp: Vec<u64> = (0..13).map(|j| (0..40).map(|i| (i * 13 + j) as u64).sum::<u64>() + j as u64).collect();
            format!("ordered_and_equal={}", out == exp)
        }
        "configured_global_size" => {
            rayon::ThreadPoolBuilder::new().num_threads(5).build_global().unwrap();
            let inside = (0..64).into_par_iter().map(|_| rayon::current_num_threads()).collect::<Vec<_>>();
            format!("n={} inside_all_5={} main_idx={:?}", rayon::current_num_threads(), inside.iter().all(|x| *x == 5), rayon::current_thread_index())
        }
        "build_global_after_join" => {
            let (a, b) = rayon::join(|| 1, || 2);
            let r = rayon::ThreadPoolBuilder::new().num_threads(2).build_global();
            format!("join={} build_err={}", a + b, r.is_err())
        }
        "nested_pools" => {
            rayon::ThreadPoolBuilder::new().num_threads(2).build_global().unwrap();
            let g: u64 = (0..300u64).into_par_iter().sum();
            let pool = rayon::ThreadPoolBuilder::new().num_threads(4).build().unwrap();
            let l: (usize, u64) = pool.install(|| (rayon::current_num_threads(), (0..300u64).into_par_iter().map(|x| x * 2).sum()));
            drop(pool);
            let g2: u64 = (0..300u64).into_par_iter().sum();
            format!("global={g} local_n={} local={} global_again={g2} global_n={}", l.0, l.1, rayon::current_num_threads())
        }
        "panic_in_install" => {
            let pool = rayon::ThreadPoolBuilder::new().num_threads(2).build().unwrap();
            let r = std::panic::catch_unwind(std::panic::AssertUnwindSafe(|| pool.install(|| (0..50).into_par_iter().for_each(|x| if x == 7 { panic!("in-pool") }))));
            let after: i32 = pool.install(|| (0..10).into_par_iter().sum());
            format!("err={} after={after}", r.is_err())
        }
        "pool_dropped_while_unwinding" => {
            // the shape of ska lo: a local pool whose handle is dropped by the unwinding of a panic
            // that one of its workers raised
            let r = std::panic::catch_unwind(|| {
                let pool = rayon::ThreadPoolBuilder::new().num_threads(3).build().unwrap();
                pool.install(|| (0..200).into_par_iter().for_each(|x| if x == 157 { panic!("in-pool") }));
            });
            let after: i32 = (0..10).into_par_iter().sum();
            format!("err={} after={after}", r.is_err())
        }
        _ => "unknown program".to_string(),
    }
}
