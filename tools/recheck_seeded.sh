#!/bin/bash
# tools/recheck_seeded.sh <label> [check-id] [tier]   (sensitivity experiments; not part of any check)
# Re-runs a check against a stored seeded change: makes a scratch worktree of /repo's HEAD under
# /tmp, applies seeded/<label>/patch.diff, runs the check with SKA_REPO, removes the worktree.
L=$1; ID=${2:-${L%%-*}}; TIER=${3:-quick}
P=/verif/seeded/$L/patch.diff; [ -f $P ] || P=/verif/seeded/benign/$L/patch.diff
[ -f $P ] || { echo "no such seeded change $L"; exit 2; }
WT=/tmp/re_$L
git -C /repo worktree remove --force $WT >/dev/null 2>&1
git -C /repo worktree add --detach $WT >/dev/null 2>&1 || exit 2
cp /repo/Cargo.lock $WT/
if ! git -C $WT apply $P 2>/dev/null; then
  if ! git -C $WT apply -3 $P >/dev/null 2>&1; then echo "$L: patch does not apply to HEAD"; git -C /repo worktree remove --force $WT; exit 2; fi
fi
cd /verif
o=$(SKA_REPO=$WT ./check $ID $TIER 2>&1); rc=$?
echo "$L with ./check $ID $TIER: exit $rc"
echo "$o" | grep -E "^violation|HARNESS|^C[0-9]+:" | head -4 | cut -c1-500
git -C /repo worktree remove --force $WT >/dev/null 2>&1; git -C /repo worktree prune
exit $rc
