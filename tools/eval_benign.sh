#!/bin/bash
# tools/eval_benign.sh <PROPERTY-ID> <N> <worktree> <label> [other check ids...]
# A property-preserving change written by a sub-agent (it alters behaviour the property leaves free):
# confirms it builds and passes the suite, then runs this framework's quick check for <ID> (and the
# listed other checks) against the changed worktree. Exit 0 expected from every check; an alarm is
# either a mistake of the change's author or an over-demand of the check, to be analysed by hand.
ID=$1; N=$2; WT=$3; LABEL=$4; shift 4; OTHERS="$*"
OUT=$WT/OUT; DEST=/verif/seeded/benign/$LABEL
[ -f $OUT/patch$N.diff ] || { echo "no patch $OUT/patch$N.diff"; exit 2; }
cd $WT || exit 2
git checkout -q -- . ; git apply $OUT/patch$N.diff || { echo "patch does not apply"; exit 2; }
export CARGO_NET_OFFLINE=true
build=ok; cargo build --offline >/tmp/ben_$ID.build.log 2>&1 || build=FAILED
suite=$(cargo test --workspace --no-fail-fast --offline 2>&1 | grep -E "^test result" | awk '{p+=$4; f+=$6} END {print p" passed "f" failed"}')
cd /verif
mkdir -p $DEST
cp $OUT/patch$N.diff $DEST/patch.diff; cp $OUT/notes$N.md $DEST/notes.md 2>/dev/null; cp $OUT/demo$N.sh $DEST/demo.sh 2>/dev/null
echo "{" > /tmp/ben_$ID.results
for c in $ID $OTHERS; do
  o=$(SKA_REPO=$WT ./check $c quick 2>&1); rc=$?
  line=$(echo "$o" | grep -E "^violation|HARNESS" | head -2 | cut -c1-500 | tr '\n"' ' _')
  echo "\"$c\": {\"exit\": $rc, \"output\": \"$line\"}," >> /tmp/ben_$ID.results
done
echo "\"_\": null}" >> /tmp/ben_$ID.results
cd $WT; git checkout -q -- .
python3 - "$ID" "$N" "$build" "$suite" "$WT" "$LABEL" <<'PY'
import json,sys
ID,N,build,suite,WT,LABEL=sys.argv[1:]
res=json.load(open(f'/tmp/ben_{ID}.results')); res.pop('_')
meta={"kind":"property-preserving change","property":ID,"source":"independent sub-agent given only the property text and a scratch worktree",
 "confirmed":{"build":build,"existing_suite":suite},
 "framework":{k:{"command":f"SKA_REPO={WT} ./check {k} quick","exit":v["exit"],"alarm":v["exit"]!=0,"output":v["output"]} for k,v in res.items()}}
json.dump(meta,open(f'/verif/seeded/benign/{LABEL}/meta.json','w'),indent=1)
print(LABEL, build, suite, {k:v["exit"] for k,v in res.items()})
for k,v in res.items():
    if v["exit"]!=0: print("   ",k,v["output"][:400])
PY
