#!/bin/bash
# tools/eval_mutant.sh <PROPERTY-ID> <N> [tier] [worktree] [label]   (sensitivity experiments; not part of any check)
# Confirms a sub-agent's seeded change in its scratch worktree /tmp/mut_<ID> (compiles, suite
# passes, demo fails with / passes without), then runs this framework's check for <ID> against the
# changed worktree (SKA_REPO) and records everything under /verif/seeded/<ID>-<N>/.
ID=$1; N=$2; TIER=${3:-quick}
WT=${4:-/tmp/mut_$ID}; LABEL=${5:-$ID-$N}; OUT=$WT/OUT; DEST=/verif/seeded/$LABEL
[ -f $OUT/patch$N.diff ] || { echo "no patch $OUT/patch$N.diff"; exit 2; }
cd $WT || exit 2
git checkout -q -- . ; git apply $OUT/patch$N.diff || { echo "patch does not apply"; exit 2; }
export CARGO_NET_OFFLINE=true
build=ok; cargo build --offline >/tmp/mut_$ID.build.log 2>&1 || build=FAILED
suite=$(cargo test --workspace --no-fail-fast --offline 2>&1 | grep -E "^test result" | awk '{p+=$4; f+=$6} END {print p" passed "f" failed"}')
demo_with=$(bash $OUT/demo$N.sh $WT >/tmp/mut_$ID.demo_with.log 2>&1; echo $?)
cd /verif
check_out=$(SKA_REPO=$WT ./check $ID $TIER 2>&1); check_rc=$?
echo "$check_out" | grep -E "^violation|VIOLATION|HARNESS|^C[0-9]+:" | cut -c1-600 > /tmp/mut_$ID.check.log
cd $WT; git checkout -q -- .
demo_without=$(bash $OUT/demo$N.sh $WT >/tmp/mut_$ID.demo_without.log 2>&1; echo $?)
mkdir -p $DEST
cp $OUT/patch$N.diff $DEST/patch.diff; cp $OUT/demo$N.sh $DEST/demo.sh; cp $OUT/notes$N.md $DEST/notes.md 2>/dev/null
caught=no; [ $check_rc = 1 ] && caught=yes
python3 - "$ID" "$N" "$build" "$suite" "$demo_with" "$demo_without" "$check_rc" "$caught" "$TIER" "$WT" "$LABEL" <<'PY'
import json,sys
ID,N,build,suite,dw,dwo,rc,caught,tier,WT,LABEL=sys.argv[1:]
log=open(f'/tmp/mut_{ID}.check.log').read().strip().splitlines()
meta={"property":ID,"source":"independent sub-agent given only the property text and a scratch worktree",
 "needs_to_manifest":"see notes.md",
 "confirmed":{"build":build,"existing_suite":suite,"demo_exit_with_change":int(dw),"demo_exit_without_change":int(dwo)},
 "framework":{"command":f"SKA_REPO={WT} ./check {ID} {tier}","exit":int(rc),"caught":caught=="yes","output":log[:6]}}
json.dump(meta,open(f'/verif/seeded/{LABEL}/meta.json','w'),indent=1)
print(json.dumps(meta,indent=1))
PY
