#!/usr/bin/env python3
"""print the markdown table of seeded changes (DESIGN.md section 13) from /verif/seeded/*/meta.json"""
import json,glob,os,re
rows=[]
for d in sorted(glob.glob('/verif/seeded/C*/')):
    m=json.load(open(d+'meta.json'))
    label=os.path.basename(d.rstrip('/'))
    what=''
    try:
        notes=open(d+'notes.md').read()
        # first non-heading, non-empty line
        for l in notes.splitlines():
            l=l.strip()
            if l and not l.startswith('#'):
                what=re.sub(r'[`*|]','',l)[:150]; break
    except Exception: pass
    out=m['framework']['output']
    sig=''
    for l in out:
        if l.startswith('violation:'):
            sig=l.split('::')[0].replace('violation:','').strip(); break
    c=m['confirmed']
    ok = c['build']=='ok' and c['existing_suite'].endswith(' 0 failed') and c['demo_exit_with_change']!=0 and c['demo_exit_without_change']==0
    rows.append(f"| {label} | {what} | {'yes' if ok else 'NO: '+json.dumps(c)} | {'caught' if m['framework']['caught'] else 'MISSED'} | `{sig}` |")
print("| seeded change | what (first line of the author's notes) | compiles, suite passes, demo fails with / passes without | quick check | first signature |")
print("|---|---|---|---|---|")
print("\n".join(rows))
