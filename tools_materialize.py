#!/usr/bin/env python3
"""debug aid: write the input files of a sched replay case into a directory"""
import json,sys,os
d=json.load(open(sys.argv[1])); c=d['case']; out=sys.argv[2]; os.makedirs(out,exist_ok=True)
def fasta(s):
    return ''.join('>%s\n%s\n'%(i,q) for i,q in s['records'])
for s in c['samples']:
    open(os.path.join(out,s['name']+'.fa'),'w').write(fasta(s))
if c.get('reference'):
    open(os.path.join(out,'ref.fa'),'w').write(fasta(c['reference']))
print(c['k'], [s['name'] for s in c['samples']], c['cmd'], c['variants'])
