#!/bin/sh
# Build the simulator from files on disk only (offline). Rebuilds ska from /repo's working tree.
set -e
cd "$(dirname "$0")/sim"
export CARGO_NET_OFFLINE=true
[ -f Cargo.lock ] || cp /repo/Cargo.lock Cargo.lock
cargo build --release --offline 2>&1 | tail -3
