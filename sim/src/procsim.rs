//! The parent side of a simulated process: spawn this binary in child mode with a
//! simulator-chosen argv / seed / core count / policy / hook subset / crash point, collect what a
//! user would observe (exit status, stdout, files) plus the child's scheduler statistics.

use std::collections::{BTreeMap, BTreeSet};
use std::path::{Path, PathBuf};
use std::process::{Command, Stdio};
use std::sync::atomic::{AtomicU64, Ordering};
use std::sync::Mutex;

use serde::{Deserialize, Serialize};

use crate::util::{fnv, Rng};

/// everything that decides one simulated process (besides the files in its working directory)
#[derive(Clone, Debug, Serialize, Deserialize, PartialEq)]
pub struct Proc {
    pub argv: Vec<String>,
    pub seed: u64,
    pub cores: usize,
    pub policy: String,
    pub hooks: u32,
    #[serde(default, skip_serializing_if = "Option::is_none")]
    pub fsize: Option<u64>,
    /// with `fsize`: fail the write with an error (disk full) instead of killing the writer
    #[serde(default, skip_serializing_if = "std::ops::Not::not")]
    pub fsize_error: bool,
    /// recorded scheduler decision list to replay (None = decide from `seed`/`policy`)
    #[serde(default, skip_serializing_if = "Option::is_none")]
    pub decisions: Option<Vec<u64>>,
}

impl Proc {
    /// threads=1, cores=1, no hooks: the reference point
    pub fn plain(argv: Vec<String>, seed: u64) -> Proc {
        Proc {
            argv,
            seed,
            cores: 1,
            policy: "uniform".into(),
            hooks: 0,
            fsize: None,
            fsize_error: false,
            decisions: None,
        }
    }
    /// random simulation parameters (machine, schedule policy, hook subset, hash seed)
    pub fn varied(argv: Vec<String>, rng: &mut Rng) -> Proc {
        let policy = match rng.below(10) {
            0..=2 => "uniform".to_string(),
            3..=5 => format!("sticky:{}", [30, 50, 80, 95][rng.below(4)]),
            6..=7 => format!("pct:{}", rng.range(1, 5)),
            8 => "rr".to_string(),
            _ => format!("sticky:{}", rng.below(100)),
        };
        let hooks = match rng.below(4) {
            0 => 0,
            1 => 0xFFFF_FFFF,
            _ => rng.next_u64() as u32,
        };
        Proc {
            argv,
            seed: rng.next_u64() >> 1,
            cores: [1, 2, 2, 3, 4, 4, 6, 8, 16][rng.below(9)],
            policy,
            hooks,
            fsize: None,
            fsize_error: false,
            decisions: None,
        }
    }
}

#[derive(Clone, Debug, Default, Deserialize)]
pub struct Stats {
    pub steps: u64,
    pub switches: u64,
    pub multi_steps: u64,
    pub max_runnable: u64,
    pub trace: String,
    pub rand_draws: u64,
    pub getrandom_calls: u64,
    pub replay_diverged: u64,
    pub joins: u64,
    pub steals: u64,
    pub inline_b: u64,
    pub injected: u64,
    pub nested: u64,
    pub pools: u64,
    pub global_implicit: bool,
    pub global_configured: bool,
    pub build_global_refused: u64,
    pub hook_hits: Vec<u64>,
    pub hook_workers: Vec<u32>,
}

#[derive(Clone, Debug)]
pub struct ProcOut {
    pub code: Option<i32>,
    pub signal: Option<i32>,
    pub stdout: Vec<u8>,
    pub stderr: Vec<u8>,
    pub stats: Option<Stats>,
    /// the scheduler decision list, when recording was requested (SKASIM_RECORD_ALL)
    pub recorded: Option<Vec<u64>>,
}
impl ProcOut {
    pub fn ok(&self) -> bool {
        self.code == Some(0)
    }
    /// a refusal: ska's own non-zero exit (panic = 101, exit(1), clap usage error = 2, or any other code)
    pub fn refused(&self) -> bool {
        // which non-zero status a refusal uses is nobody's property (3 and 4 are the simulator's own)
        matches!(self.code, Some(c) if c != 0 && c != 3 && c != 4)
    }
    pub fn sim_failed(&self) -> bool {
        self.code == Some(3)
    }
    pub fn status_str(&self) -> String {
        match (self.code, self.signal) {
            (Some(c), _) => format!("exit{c}"),
            (None, Some(s)) => format!("sig{s}"),
            _ => "unknown".into(),
        }
    }
    pub fn stderr_tail(&self) -> String {
        let s = String::from_utf8_lossy(&self.stderr);
        let lines: Vec<&str> = s
            .lines()
            .filter(|l| !l.starts_with("SKASIM-STATS") && !l.contains('⬛') && !l.contains('⬜'))
            .collect();
        let n = lines.len();
        let t = lines[n.saturating_sub(6)..].join(" | ");
        // a panic message carries the OS thread id ("thread 'main' (12345) panicked"): it must not
        // reach an event log or a message, both have to be the same in every execution
        let mut out = String::with_capacity(t.len());
        let b = t.as_bytes();
        let mut i = 0;
        while i < b.len() {
            if b[i] == b'(' {
                let mut j = i + 1;
                while j < b.len() && b[j].is_ascii_digit() {
                    j += 1;
                }
                if j > i + 1 && j < b.len() && b[j] == b')' && t[j + 1..].starts_with(" panicked") {
                    out.push_str("(tid)");
                    i = j + 1;
                    continue;
                }
            }
            out.push(b[i] as char);
            i += 1;
        }
        out
    }
}

// ------------------------------------------------------------------ accounting (evidence)
#[derive(Default)]
pub struct Acct {
    pub procs: AtomicU64,
    pub steps: AtomicU64,
    pub switches: AtomicU64,
    pub multi_steps: AtomicU64,
    pub joins: AtomicU64,
    pub steals: AtomicU64,
    pub injected: AtomicU64,
    pub nested: AtomicU64,
    pub procs_with_steal: AtomicU64,
    pub procs_multi: AtomicU64,
    pub implicit_global: AtomicU64,
    pub build_global_refused: AtomicU64,
    pub sim_failures: AtomicU64,
    pub max_runnable: AtomicU64,
    pub traces: Mutex<BTreeSet<u64>>,
    pub hook_hits: Mutex<Vec<u64>>,
    pub hook_multiworker: Mutex<Vec<u64>>,
    pub faults: Mutex<BTreeMap<String, u64>>,
    pub probes: Mutex<BTreeMap<String, u64>>,
    pub by_cmd: Mutex<BTreeMap<String, u64>>,
}
pub static ACCT: std::sync::OnceLock<Acct> = std::sync::OnceLock::new();
pub fn acct() -> &'static Acct {
    ACCT.get_or_init(Acct::default)
}
pub fn fault(kind: &str) {
    *acct().faults.lock().unwrap().entry(kind.to_string()).or_insert(0) += 1;
}
pub fn probe(name: &str) {
    *acct().probes.lock().unwrap().entry(name.to_string()).or_insert(0) += 1;
}
pub fn probe_n(name: &str, n: u64) {
    *acct().probes.lock().unwrap().entry(name.to_string()).or_insert(0) += n;
}

fn account(p: &Proc, out: &ProcOut) {
    let a = acct();
    a.procs.fetch_add(1, Ordering::Relaxed);
    *a.by_cmd
        .lock()
        .unwrap()
        .entry(p.argv.first().cloned().unwrap_or_default())
        .or_insert(0) += 1;
    if p.fsize.is_some() && out.signal == Some(libc::SIGXFSZ) {
        fault("crash_at_byte");
    }
    if p.fsize.is_some() && p.fsize_error && out.code == Some(101) {
        fault("write_error_at_byte");
    }
    if out.sim_failed() {
        a.sim_failures.fetch_add(1, Ordering::Relaxed);
    }

    if let Some(s) = &out.stats {
        a.steps.fetch_add(s.steps, Ordering::Relaxed);
        a.switches.fetch_add(s.switches, Ordering::Relaxed);
        a.multi_steps.fetch_add(s.multi_steps, Ordering::Relaxed);
        a.joins.fetch_add(s.joins, Ordering::Relaxed);
        a.steals.fetch_add(s.steals, Ordering::Relaxed);
        a.injected.fetch_add(s.injected, Ordering::Relaxed);
        a.nested.fetch_add(s.nested, Ordering::Relaxed);
        a.build_global_refused.fetch_add(s.build_global_refused, Ordering::Relaxed);
        if s.steals > 0 {
            a.procs_with_steal.fetch_add(1, Ordering::Relaxed);
        }
        if s.global_implicit {
            a.implicit_global.fetch_add(1, Ordering::Relaxed);
        }
        a.max_runnable.fetch_max(s.max_runnable, Ordering::Relaxed);
        if s.multi_steps > 0 {
            a.procs_multi.fetch_add(1, Ordering::Relaxed);
            // an interleaving is only "distinct" if there was something to interleave
            let t = u64::from_str_radix(&s.trace, 16).unwrap_or(0);
            a.traces.lock().unwrap().insert(t);
        }
        let mut hh = a.hook_hits.lock().unwrap();
        let mut hm = a.hook_multiworker.lock().unwrap();
        if hh.len() < s.hook_hits.len() {
            hh.resize(s.hook_hits.len(), 0);
            hm.resize(s.hook_hits.len(), 0);
        }
        for (i, h) in s.hook_hits.iter().enumerate() {
            hh[i] += h;
            if s.hook_workers.get(i).copied().unwrap_or(0) > 1 {
                hm[i] += 1;
            }
        }
    }
}

// ------------------------------------------------------------------ simulated disk
static RUN_COUNTER: AtomicU64 = AtomicU64::new(0);

pub fn scratch_root() -> PathBuf {
    let base = if Path::new("/dev/shm").is_dir() { "/dev/shm" } else { "/tmp" };
    PathBuf::from(format!("{base}/skasim.{}", std::process::id()))
}

/// a private directory on tmpfs = the disk of one run; removed on drop
pub struct RunDir {
    pub path: PathBuf,
}
impl RunDir {
    pub fn new() -> RunDir {
        let n = RUN_COUNTER.fetch_add(1, Ordering::Relaxed);
        let path = scratch_root().join(format!("r{n}"));
        std::fs::create_dir_all(&path).expect("create run dir");
        RunDir { path }
    }
    pub fn p(&self, name: &str) -> PathBuf {
        self.path.join(name)
    }
    pub fn write(&self, name: &str, data: &[u8]) {
        let p = self.p(name);
        if let Some(parent) = p.parent() {
            let _ = std::fs::create_dir_all(parent);
        }
        std::fs::write(p, data).expect("write input");
    }
    pub fn read(&self, name: &str) -> Option<Vec<u8>> {
        std::fs::read(self.p(name)).ok()
    }
    pub fn exists(&self, name: &str) -> bool {
        self.p(name).exists()
    }
    pub fn remove(&self, name: &str) {
        let _ = std::fs::remove_file(self.p(name));
    }
    pub fn digest(&self, name: &str) -> Option<u64> {
        self.read(name).map(|d| fnv(&d))
    }
    /// every file below the run directory, as relative paths, sorted
    pub fn listing(&self) -> Vec<String> {
        fn walk(base: &Path, dir: &Path, out: &mut Vec<String>) {
            if let Ok(rd) = std::fs::read_dir(dir) {
                for e in rd.filter_map(|e| e.ok()) {
                    let p = e.path();
                    if p.is_dir() {
                        walk(base, &p, out);
                    } else if let Ok(rel) = p.strip_prefix(base) {
                        out.push(rel.to_string_lossy().to_string());
                    }
                }
            }
        }
        let mut v = vec![];
        walk(&self.path, &self.path, &mut v);
        v.sort();
        v
    }
}
impl Drop for RunDir {
    fn drop(&mut self) {
        let _ = std::fs::remove_dir_all(&self.path);
    }
}

pub fn cleanup_scratch() {
    let _ = std::fs::remove_dir_all(scratch_root());
}

// ------------------------------------------------------------------ spawn
pub struct HarnessError(pub String);

static EXE: std::sync::OnceLock<PathBuf> = std::sync::OnceLock::new();

/// Run one simulated process with `dir` as its disk. `log` receives one line describing what
/// happened (no clocks, no pids): the determinism self-test diffs these lines.
pub fn run_proc(dir: &RunDir, p: &Proc, log: &mut Vec<String>) -> Result<ProcOut, HarnessError> {
    let exe = EXE.get_or_init(|| std::env::current_exe().expect("current_exe"));
    let mut cmd = Command::new(exe);
    cmd.args(&p.argv)
        .current_dir(&dir.path)
        .env_clear()
        .env("SKASIM_CHILD", "1")
        .env("SKASIM_SEED", p.seed.to_string())
        .env("SKASIM_CORES", p.cores.to_string())
        .env("SKASIM_POLICY", &p.policy)
        .env("SKASIM_HOOKS", p.hooks.to_string())
        .stdin(Stdio::null())
        .stdout(Stdio::piped())
        .stderr(Stdio::piped());
    if let Some(n) = p.fsize {
        cmd.env("SKASIM_FSIZE", n.to_string());
        if p.fsize_error {
            cmd.env("SKASIM_FSIZE_ERROR", "1");
        }
    }
    let mut replay_file = None;
    if let Some(d) = &p.decisions {
        let name = format!(".decisions.{}", RUN_COUNTER.fetch_add(1, Ordering::Relaxed));
        let s: Vec<String> = d.iter().map(|v| v.to_string()).collect();
        dir.write(&name, s.join("\n").as_bytes());
        cmd.env("SKASIM_REPLAY", dir.p(&name));
        replay_file = Some(name);
    }
    let record_file = if std::env::var_os("SKASIM_RECORD_ALL").is_some() {
        let name = format!(".record.{}", RUN_COUNTER.fetch_add(1, Ordering::Relaxed));
        cmd.env("SKASIM_RECORD", dir.p(&name));
        Some(name)
    } else {
        None
    };
    // no pre_exec: keeps std on the posix_spawn path (a fork of the 16-thread parent is very slow);
    // the CPU backstop is set by the child itself (SKASIM_CPU)
    cmd.env("SKASIM_CPU", "300");
    let out = cmd
        .output()
        .map_err(|e| HarnessError(format!("cannot spawn simulated process: {e}")))?;
    if let Some(n) = replay_file {
        dir.remove(&n);
    }
    let recorded = record_file.map(|n| {
        let v = dir
            .read(&n)
            .map(|d| String::from_utf8_lossy(&d).split_whitespace().filter_map(|t| t.parse().ok()).collect())
            .unwrap_or_default();
        dir.remove(&n);
        v
    });
    use std::os::unix::process::ExitStatusExt;
    let stats = String::from_utf8_lossy(&out.stderr)
        .lines()
        .rev()
        .find_map(|l| l.strip_prefix("SKASIM-STATS "))
        .and_then(|j| serde_json::from_str::<Stats>(j).ok());
    let po = ProcOut {
        code: out.status.code(),
        signal: out.status.signal(),
        stdout: out.stdout,
        stderr: out.stderr,
        stats,
        recorded,
    };
    if po.signal == Some(libc::SIGXCPU) || po.signal == Some(libc::SIGKILL) {
        return Err(HarnessError(format!(
            "simulated process exceeded the CPU backstop: {:?}",
            p.argv
        )));
    }
    account(p, &po);
    if po.code == Some(4) {
        return Err(HarnessError(format!("a simulated process reached the step cap (SKASIM_MAXSTEPS): {:?}", p.argv)));
    }
    log.push(format!(
        "proc {:?} seed={} cores={} policy={} hooks={:x} fsize={:?} -> {} steps={} trace={} stdout={:016x}",
        p.argv,
        p.seed,
        p.cores,
        p.policy,
        p.hooks,
        p.fsize,
        po.status_str(),
        po.stats.as_ref().map(|s| s.steps).unwrap_or(0),
        po.stats.as_ref().map(|s| s.trace.clone()).unwrap_or_default(),
        fnv(&po.stdout)
    ));
    Ok(po)
}

pub fn sv(v: &[&str]) -> Vec<String> {
    v.iter().map(|s| s.to_string()).collect()
}
