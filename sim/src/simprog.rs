//! `@programs`: small in-process programs that run inside a simulated process (same seams as
//! `ska::main()`), written against ska's public API the way the crate documentation shows.
//!
//!   @resave IN OUT              load IN (width chosen from k, as `ska build` chooses it), convert to
//!                               the dictionary form and back, save: "a freshly built file with the
//!                               same content" (C10's canonical file)
//!   @inmem K RC LIST OP ARGS..  build LIST (name<TAB>path per line) in memory with the integer
//!                               width `ska build` would use for K and apply OP to the in-memory
//!                               array, no file in between (C09's in-memory side)
//!   @conf NAME                  one of the rayon conformance programs (conformance/programs.rs)
//!   @loadas W FILE              load FILE with the W-bit loader and print it like `nk --full-info`

use ska::cli::{FileType, FilterType};
use ska::generic_modes;
use ska::merge_ska_array::MergeSkaArray;
use ska::merge_ska_dict::{build_and_merge, InputFastx};
use ska::ska_dict::bit_encoding::UInt;
use ska::ska_ref::RefSka;
use ska::skalo::utils::Config;
use ska::{QualFilter, QualOpts};

fn parse_filter(s: &str) -> FilterType {
    match s {
        "no-filter" => FilterType::NoFilter,
        "no-const" => FilterType::NoConst,
        "no-ambig" => FilterType::NoAmbig,
        "no-ambig-or-const" => FilterType::NoAmbigOrConst,
        _ => panic!("bad filter {s}"),
    }
}

fn read_list(path: &str) -> Vec<InputFastx> {
    std::fs::read_to_string(path)
        .expect("list")
        .lines()
        .filter(|l| !l.trim().is_empty())
        .map(|l| {
            let mut f = l.split_whitespace();
            (
                f.next().unwrap().to_string(),
                f.next().unwrap().to_string(),
                None,
            )
        })
        .collect()
}

fn build<IntT: for<'a> UInt<'a>>(k: usize, rc: bool, list: &str) -> MergeSkaArray<IntT> {
    let q = QualOpts {
        min_count: 5,
        min_qual: 20,
        qual_filter: QualFilter::Strict,
    };
    let dict = build_and_merge::<IntT>(&read_list(list), k, rc, &q, 1, None);
    MergeSkaArray::new(&dict)
}

fn print_nk<IntT: for<'a> UInt<'a>>(a: &MergeSkaArray<IntT>) {
    println!("{a}");
    println!("{a:?}");
}

fn b(s: &str) -> bool {
    s == "1" || s == "true"
}

fn inmem<IntT: for<'a> UInt<'a>>(k: usize, rc: bool, list: &str, op: &[String]) {
    let mut arr = build::<IntT>(k, rc, list);
    // "save=FILE": first save exactly this in-memory array (C09: "the in-memory data it was saved
    // from"), then apply the operation to the array still in memory
    let mut op = op;
    if let Some(f) = op[0].strip_prefix("save=") {
        arr.save(f).expect("save");
        op = &op[1..];
    }
    match op[0].as_str() {
        "nk" => print_nk(&arr),
        // align FILTER MIN_FREQ AMBIG_MISSING AMBIG_MASK NO_GAP_ONLY
        "align" => generic_modes::align(
            &mut arr,
            &None,
            &parse_filter(&op[1]),
            b(&op[4]),
            b(&op[5]),
            op[2].parse().unwrap(),
            b(&op[3]),
        ),
        // map REF FORMAT AMBIG_MASK REPEAT_MASK
        "map" => {
            let mut r = RefSka::<IntT>::new(arr.kmer_len(), &op[1], arr.rc(), b(&op[3]), b(&op[4]));
            let fmt = if op[2] == "vcf" { FileType::Vcf } else { FileType::Aln };
            generic_modes::map(&arr, &mut r, &None, &fmt, 1);
        }
        // distance MIN_FREQ ALLOW_AMBIGUOUS
        "distance" => {
            generic_modes::distance(&mut arr, &None, op[1].parse().unwrap(), !b(&op[2]), 1)
        }
        // weed FASTA REVERSE [AMBIG_MISSING AMBIG_MASK FILTER]: the library calls `ska weed` is
        // documented to make (weed, then the filters when any is requested; no frequency threshold)
        "weed" => {
            let r = RefSka::<IntT>::new(arr.kmer_len(), &op[1], arr.rc(), false, false);
            arr.weed(&r, b(&op[2]));
            if op.len() >= 6 {
                let (ambig_missing, ambig_mask, filter) = (b(&op[3]), b(&op[4]), parse_filter(&op[5]));
                if filter != FilterType::NoFilter || ambig_mask {
                    arr.filter(0, ambig_missing, &filter, ambig_mask, false, true);
                }
            }
            print_nk(&arr);
        }
        // emptied FASTA OUT: keep only the k-mers of FASTA (which match nothing), save the emptied
        // table as OUT and print it
        "emptied" => {
            let r = RefSka::<IntT>::new(arr.kmer_len(), &op[1], arr.rc(), false, false);
            arr.weed(&r, true);
            arr.save(&op[2]).expect("save emptied");
            print_nk(&arr);
        }
        // delete NAME..
        "delete" => {
            let names: Vec<&str> = op[1..].iter().map(|s| s.as_str()).collect();
            arr.delete_samples(&names);
            print_nk(&arr);
        }
        // merge LIST2
        "merge" => {
            let other = build::<IntT>(k, rc, &op[1]);
            let mut d = arr.to_dict();
            d.extend(&mut other.to_dict());
            print_nk(&MergeSkaArray::new(&d));
        }
        // lo OUT [REF|-] MISSING
        "lo" => {
            let config = Config {
                input_file: String::new(),
                output_name: op[1].clone(),
                max_missing: op[3].parse().unwrap(),
                max_depth: 4,
                max_indel_kmers: 2,
                nb_threads: 1,
                reference_genome: if op[2] == "-" { None } else { Some(op[2].clone().into()) },
            };
            generic_modes::skalo(arr, config);
        }
        x => panic!("unknown @inmem op {x}"),
    }
}

fn resave<IntT: for<'a> UInt<'a>>(inp: &str, out: &str) {
    let arr = MergeSkaArray::<IntT>::load(inp).expect("load for resave");
    let dict = arr.to_dict();
    MergeSkaArray::new(&dict).save(out).expect("save");
}

fn peek_k(inp: &str) -> usize {
    if let Ok(a) = MergeSkaArray::<u128>::load(inp) {
        return a.kmer_len();
    }
    MergeSkaArray::<u64>::load(inp).expect("cannot read file").kmer_len()
}

#[path = "../../conformance/programs.rs"]
pub mod conf_programs;

pub fn run(args: &[String]) {
    match args[0].as_str() {
        "@conf" => println!("{}", conf_programs::run(&args[1])),
        "@resave" => {
            if peek_k(&args[1]) <= 31 {
                resave::<u64>(&args[1], &args[2])
            } else {
                resave::<u128>(&args[1], &args[2])
            }
        }
        "@inmem" => {
            let k: usize = args[1].parse().unwrap();
            let rc = b(&args[2]);
            if k <= 31 {
                inmem::<u64>(k, rc, &args[3], &args[4..])
            } else {
                inmem::<u128>(k, rc, &args[3], &args[4..])
            }
        }
        "@loadas" => {
            if args[1] == "64" {
                print_nk(&MergeSkaArray::<u64>::load(&args[2]).expect("load64"));
            } else {
                print_nk(&MergeSkaArray::<u128>::load(&args[2]).expect("load128"));
            }
        }
        x => panic!("unknown @program {x}"),
    }
}
