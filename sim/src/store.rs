//! `store` workload (C06, C07, C08, C10, C13, C14): operation histories over a directory of .skf
//! files on the simulated disk. Every operation is one simulated process (save -> exit -> restart
//! -> load), checked step by step against the table model, against a joint `ska build` where the
//! property is worded differentially, and - for C10 - by observing the history's file F and a
//! freshly re-saved file F' with the same content through every later subcommand.

use std::collections::{BTreeMap, BTreeSet};

use serde::{Deserialize, Serialize};
use serde_json::{json, Value};

use crate::framework::{Ctx, Outcome, Tier, Workload};
use crate::gen::{gen_fits64_samples, gen_samples, gen_weed_fasta, pick_k, GenomeOpts, Sample};
use crate::model::{columns, inspect, parse_fasta, FilterOpts, SiteFilter, Table};
use crate::procsim::{fault, probe, run_proc, HarnessError, Proc, ProcOut, RunDir};
use crate::sched::AlignOpts;
use crate::util::{mix, Rng};

#[derive(Clone, Debug, Serialize, Deserialize, PartialEq)]
pub struct WeedOpts {
    /// fasta file (in `extra`) whose k-mers are weeded; None = filters only
    pub weed: Option<String>,
    pub reverse: bool,
    /// frequency threshold as a count j (the command line gets j/n if exactly representable)
    pub min_count: usize,
    pub ambig_missing: bool,
    pub filter: SiteFilter,
    pub ambig_mask: bool,
    pub no_gap_only: bool,
}

/// The FASTA text `text` written another way that contains the same sequences (see
/// `Op::WeedSpelling`); None when the style does not apply to this file.
pub fn respell(text: &str, style: &str, salt: u64, k: usize, rc: bool) -> Option<(String, Vec<u8>)> {
    let mut rng = Rng::new(salt);
    let mut recs: Vec<(String, Vec<u8>)> = vec![];
    for l in text.lines() {
        if let Some(id) = l.strip_prefix('>') {
            recs.push((id.to_string(), vec![]));
        } else if let Some(r) = recs.last_mut() {
            r.1.extend_from_slice(l.trim_end().as_bytes());
        }
    }
    let plain = |recs: &[(String, Vec<u8>)], width: usize| -> String {
        recs.iter().map(|(id, s)| crate::util::wrap_fasta(id, s, width)).collect()
    };
    let mut name = "respelt.fa".to_string();
    let bytes: Vec<u8> = match style {
        "lower" => plain(&recs, 60).lines().map(|l| if l.starts_with('>') { format!("{l}\n") } else { format!("{}\n", l.to_lowercase()) }).collect::<String>().into_bytes(),
        "mixed-case" => {
            for r in recs.iter_mut() {
                for b in r.1.iter_mut() {
                    if rng.chance(40) {
                        *b = b.to_ascii_lowercase();
                    }
                }
            }
            plain(&recs, 0).into_bytes()
        }
        "crlf" => plain(&recs, 60).replace('\n', "\r\n").into_bytes(),
        "gz" => {
            use std::io::Write;
            name = "respelt.fa.gz".into();
            let mut e = flate2::write::GzEncoder::new(Vec::new(), flate2::Compression::default());
            e.write_all(plain(&recs, 60).as_bytes()).expect("gzip");
            e.finish().expect("gzip")
        }
        "wrap" => plain(&recs, *rng.pick(&[1usize, 2, 7, 13, k, k + 1, 250])).into_bytes(),
        "short-records" => {
            // records too short to hold a split k-mer (fewer than k bases) before, between and after
            let mut out: Vec<(String, Vec<u8>)> = vec![];
            for (i, r) in recs.iter().enumerate() {
                if rng.chance(60) {
                    let l = rng.range(1, k - 1);
                    out.push((format!("short{i}"), rng.dna(l)));
                }
                out.push(r.clone());
            }
            let l = rng.range(1, k - 1);
            out.push(("last".into(), rng.dna(l)));
            plain(&out, 60).into_bytes()
        }
        "overlapping-pieces" => {
            // a record without N cut in two pieces that overlap by k-1 bases holds the same windows of k
            let mut out: Vec<(String, Vec<u8>)> = vec![];
            let mut cut = false;
            for (id, s) in &recs {
                if !cut && !s.contains(&b'N') && s.len() >= 2 * k + 6 {
                    let j = rng.range(3, s.len() - 2 * k - 2);
                    out.push((format!("{id}.a"), s[..j + k - 1 + 2].to_vec()));
                    out.push((format!("{id}.b"), s[j + 2..].to_vec()));
                    cut = true;
                } else {
                    out.push((id.clone(), s.clone()));
                }
            }
            if !cut {
                return None;
            }
            plain(&out, 60).into_bytes()
        }
        "revcomp" => {
            if !rc {
                return None;
            }
            // a stretch of exactly k valid bases is found or not depending on where in the record it
            // lies - the pinned builder and `weed` agree on that, it is the record-length-k corner of
            // C01 (not claimed) - so turning such a record round changes the set for that reason
            if recs.iter().any(|r| r.1.split(|b| *b == b'N' || *b == b'n').any(|seg| seg.len() == k)) {
                return None;
            }
            let i = rng.below(recs.len());
            recs[i].1 = crate::util::revcomp(&recs[i].1);
            plain(&recs, 60).into_bytes()
        }
        "n-free-stretches-as-records" => {
            // an N only breaks windows: every N-free stretch as a record of its own holds the same
            // k-mers (stretches of exactly k bases excepted, see revcomp)
            if !recs.iter().any(|r| r.1.iter().any(|b| *b == b'N' || *b == b'n')) {
                return None;
            }
            let mut out: Vec<(String, Vec<u8>)> = vec![];
            for (id, sq) in &recs {
                for (j, seg) in sq.split(|b| *b == b'N' || *b == b'n').filter(|x| !x.is_empty()).enumerate() {
                    if seg.len() == k {
                        return None;
                    }
                    out.push((format!("{id}.{j}"), seg.to_vec()));
                }
            }
            plain(&out, 60).into_bytes()
        }
        "duplicate-record" => {
            let i = rng.below(recs.len());
            let r = recs[i].clone();
            recs.push(r);
            plain(&recs, 60).into_bytes()
        }
        _ => return None,
    };
    Some((name, bytes))
}

#[derive(Clone, Debug, Serialize, Deserialize, PartialEq)]
pub enum Observer {
    Align(AlignJ),
    Distance { min_count: usize, #[serde(default)] pct: Option<u32>, allow_ambig: bool, threads: usize },
    Map { vcf: bool, ambig_mask: bool, repeat_mask: bool },
    Nk,
    Delete { names: Vec<String> },
    Weed { weed: String, reverse: bool },
}

/// align options with the frequency threshold as a count j (command line gets (j-1/2)/n)
#[derive(Clone, Debug, Serialize, Deserialize, PartialEq)]
pub struct AlignJ {
    /// threshold as a count j (the command line gets (j-1/2)/n) unless `pct` is set
    pub min_count: usize,
    /// a user-style decimal --min-freq pct/100 (0.9, 0.25, ..); the threshold is then the exact
    /// ceil(pct*n/100), used only where the f64 product is unambiguous (see `pct_threshold`)
    #[serde(default, skip_serializing_if = "Option::is_none")]
    pub pct: Option<u32>,
    pub filter: SiteFilter,
    pub ambig_missing: bool,
    pub ambig_mask: bool,
    pub no_gap_only: bool,
}

#[derive(Clone, Debug, Serialize, Deserialize, PartialEq)]
pub enum Op {
    Build { out: String, samples: Vec<usize>, k: usize, single_strand: bool, list: bool, threads: usize },
    Merge { out: String, inputs: Vec<String> },
    Delete { file: String, names: Vec<String>, via_file: bool, out: Option<String> },
    Weed { file: String, o: WeedOpts, out: Option<String> },
    Resave { file: String },
    /// C13: weed(F) and reverse-weed(F) partition F; weeding twice changes nothing
    WeedLaws { file: String, weed: String },
    /// C13: the same weed, in place, on a copy of the file whose name does not end in .skf
    WeedOddName { file: String, weed: String, ext: String, reverse: bool },
    /// C13: the same weed with the weed file written another way (lower case, CRLF, gzip, other
    /// line width, extra records shorter than k, a record cut into overlapping pieces, a record
    /// reverse-complemented when strands are merged): the k-mers occurring in it are the same
    WeedSpelling { file: String, weed: String, style: String, salt: u64, reverse: bool },
    /// C06: `ska align` against the model predicate
    Align { file: String, a: AlignJ },
    /// C14: `ska distance` against the model definition
    Distance { file: String, min_count: usize, #[serde(default)] pct: Option<u32>, allow_ambig: bool, threads: usize },
    /// C14: the same samples built in another order give the same distances
    DistancePermuted { file: String, perm_seed: u64 },
    /// C10 (b): observers on F and on a freshly re-saved F'
    Canon { file: String, observers: Vec<Observer> },
}

#[derive(Clone, Debug, Serialize, Deserialize, PartialEq)]
pub struct StoreCase {
    /// samples given as paired read files (sample index -> forward, reverse FASTQ) instead of FASTA
    #[serde(default, skip_serializing_if = "BTreeMap::is_empty")]
    pub fastq: BTreeMap<usize, (String, String)>,
    pub focus: String,
    pub samples: Vec<Sample>,
    /// further input files: name -> content (weed sequences, references)
    pub extra: BTreeMap<String, String>,
    pub ops: Vec<Op>,
    pub sim_seed: u64,
}

pub struct StoreWorkload {
    pub focus: &'static str,
}

/// C10 reach: per file the writers it went through; every operation is counted under
/// `history_<last writer of its input>-><operation>` and observers also under the depth of the
/// history behind the file they read.
fn history_reach(lineage: &mut BTreeMap<String, Vec<&'static str>>, op: &Op) {
    fn weed_kind(o: &WeedOpts) -> &'static str {
        match (o.weed.is_some(), o.ambig_missing) {
            (true, false) => "weed",
            (true, true) => "weed+ambig-missing",
            (false, true) => "filter-ambig-missing",
            (false, false) => "filter",
        }
    }
    let last = |l: &BTreeMap<String, Vec<&'static str>>, f: &str| l.get(f).and_then(|v| v.last().copied()).unwrap_or("unknown");
    let derive = |l: &mut BTreeMap<String, Vec<&'static str>>, from: &str, to: &str, kind: &'static str| {
        probe(&format!("history_{}->{}", l.get(from).and_then(|v| v.last().copied()).unwrap_or("unknown"), kind));
        let mut h = l.get(from).cloned().unwrap_or_default();
        h.push(kind);
        l.insert(to.to_string(), h);
    };
    match op {
        Op::Build { out, .. } => {
            lineage.insert(out.clone(), vec!["build"]);
        }
        Op::Merge { out, inputs } => {
            let mut h = vec![];
            for f in inputs {
                probe(&format!("history_{}->merge", last(lineage, f)));
                h.extend(lineage.get(f).cloned().unwrap_or_default());
            }
            h.push("merge");
            lineage.insert(out.clone(), h);
        }
        Op::Delete { file, out, .. } => derive(lineage, file, out.as_deref().unwrap_or(file), "delete"),
        Op::Weed { file, o, out } => derive(lineage, file, out.as_deref().unwrap_or(file), weed_kind(o)),
        Op::Resave { file } => derive(lineage, file, file, "resave"),
        Op::Canon { file, observers } => {
            let h = lineage.get(file).cloned().unwrap_or_default();
            let writers = h.iter().filter(|k| **k != "build").count();
            probe(&format!("history_depth_{}_observed", writers.min(6)));
            let mut kinds: Vec<&str> = h.iter().copied().filter(|k| *k != "build").collect();
            kinds.sort();
            kinds.dedup();
            if kinds.len() >= 3 {
                probe("history_of_three_or_more_writer_kinds_observed");
            }
            for o in observers {
                let k = match o {
                    Observer::Align(_) => "align",
                    Observer::Distance { .. } => "distance",
                    Observer::Map { .. } => "map",
                    Observer::Nk => "nk",
                    Observer::Delete { .. } => "delete",
                    Observer::Weed { .. } => "weed",
                };
                probe(&format!("history_{}->observe-{}", last(lineage, file), k));
            }
        }
        _ => {}
    }
}

struct MFile {
    table: Table,
    /// sample indices per column while the file is exactly "these samples built together"
    sources: Option<Vec<usize>>,
}

fn skf(name: &str) -> String {
    format!("{name}.skf")
}

/// f such that floor(n*f) == ceil(n*f) == j in f64 arithmetic, if there is one
fn exact_freq(j: usize, n: usize) -> Option<String> {
    if j == 0 {
        return Some("0".into());
    }
    if j == n {
        return Some("1".into());
    }
    let f = j as f64 / n as f64;
    let p = n as f64 * f;
    if p == j as f64 && p.floor() == p {
        Some(format!("{f}"))
    } else {
        None
    }
}
/// (j - 1/2)/n: ceil(n*f) == j for any rounding
fn half_freq(j: usize, n: usize) -> String {
    if j == 0 {
        "0".into()
    } else {
        format!("{}", (j as f64 - 0.5) / n as f64)
    }
}

pub const PCTS: [u32; 17] = [5, 10, 20, 25, 30, 40, 50, 60, 65, 70, 75, 80, 85, 90, 95, 99, 100];
/// For --min-freq = pct/100 written as a decimal: Some((cli string, exact ceil(pct*n/100))) when
/// the product n*f computed in f64 (as the CLI computes it) is unambiguous - exactly the integer
/// when pct*n/100 is one, clearly fractional otherwise - so that "ceil(min_freq x samples)" means
/// the same thing in exact and in floating-point arithmetic.
pub fn pct_threshold(pct: u32, n: usize) -> Option<(String, usize)> {
    let cli = if pct == 100 { "1".to_string() } else { format!("0.{pct:02}") };
    let cli = cli.trim_end_matches('0').to_string();
    let cli = if cli == "0." { "0".to_string() } else { cli };
    // the same number written in other legal ways
    // (only spellings every decimal parser reads: a stricter argument parser is nobody's violation)
    let cli = match (pct as usize * 7 + n) % 6 {
        1 if pct < 100 => format!("0.{pct:02}"), // 0.90
        2 if pct == 100 => "1.0".to_string(),
        _ => cli,
    };
    let f: f64 = cli.parse().ok()?;
    let x = n as f64 * f;
    let num = pct as usize * n;
    if num % 100 == 0 {
        if x == (num / 100) as f64 {
            Some((cli, num / 100))
        } else {
            None
        }
    } else {
        let exact = num as f64 / 100.0;
        if (x - exact).abs() < 1e-9 {
            Some((cli, num / 100 + 1))
        } else {
            None
        }
    }
}
/// (command-line string, threshold count) of an align/distance frequency setting
fn freq_setting(min_count: usize, pct: Option<u32>, n: usize) -> Option<(String, usize)> {
    match pct {
        Some(p) => pct_threshold(p, n),
        None => {
            if min_count > n {
                None
            } else {
                Some((half_freq(min_count, n), min_count))
            }
        }
    }
}

fn parse_distance(out: &[u8]) -> Result<BTreeMap<(String, String), (String, String)>, String> {
    let s = String::from_utf8_lossy(out);
    let mut m = BTreeMap::new();
    for (i, line) in s.lines().enumerate() {
        if line.trim().is_empty() || line.starts_with('#') {
            continue;
        }
        let f: Vec<&str> = line.split('\t').collect();
        // a heading line (however it is worded): four fields of which the third is not a number
        if i == 0 && f.len() == 4 && f[2].trim().parse::<f64>().is_err() {
            continue;
        }
        if f.len() != 4 {
            return Err(format!("bad line {line:?}"));
        }
        let key = if f[0] <= f[1] { (f[0].to_string(), f[1].to_string()) } else { (f[1].to_string(), f[0].to_string()) };
        if m.insert(key.clone(), (f[2].to_string(), f[3].to_string())).is_some() {
            return Err(format!("pair {key:?} reported twice"));
        }
    }
    Ok(m)
}
/// the reported figures against the definition's: the SNP count within half a unit of the second
/// printed decimal, the proportion within 1e-5 (how many decimals are printed is nobody's property)
fn distance_agrees(got: &(String, String), snps: f64, mm: f64) -> bool {
    match (got.0.trim().parse::<f64>(), got.1.trim().parse::<f64>()) {
        (Ok(d), Ok(m)) => (d - snps).abs() < 0.00501 && (m - mm).abs() <= 1.0e-5 + 5.0e-6,
        _ => false,
    }
}

struct Exec<'a> {
    dir: &'a RunDir,
    c: &'a StoreCase,
    log: Vec<String>,
    nproc: u64,
    store: BTreeMap<String, MFile>,
    weed_sets: BTreeMap<(String, usize, bool), BTreeSet<u128>>,
}

enum Stop {
    Violation(String, String),
    Invalid(String),
    Harness(HarnessError),
}
impl From<HarnessError> for Stop {
    fn from(e: HarnessError) -> Stop {
        Stop::Harness(e)
    }
}
fn viol<T>(sig: &str, msg: String) -> Result<T, Stop> {
    Err(Stop::Violation(sig.to_string(), msg))
}

impl<'a> Exec<'a> {
    fn run(&mut self, argv: Vec<String>) -> Result<ProcOut, Stop> {
        self.nproc += 1;
        let mut rng = Rng::new(mix(self.c.sim_seed, self.nproc));
        let mut p = Proc::varied(argv, &mut rng);
        p.cores = [1, 2, 4][rng.below(3)];
        Ok(run_proc(self.dir, &p, &mut self.log)?)
    }
    fn snapshot(&self) -> BTreeMap<String, u64> {
        self.dir
            .listing()
            .into_iter()
            .filter_map(|n| self.dir.digest(&n).map(|d| (n, d)))
            .collect()
    }
    fn inspect(&self, name: &str, what: &str) -> Result<Table, Stop> {
        match inspect(&self.dir.p(&skf(name))) {
            Err(e) => viol(&format!("{what}:output-unreadable"), format!("{name}.skf: {e}")),
            Ok(i) => {
                if i.duplicate_kmers > 0 || i.all_gap_rows > 0 {
                    return viol(
                        &format!("{what}:malformed-table"),
                        format!("{name}.skf holds {} duplicate k-mers and {} all-gap rows", i.duplicate_kmers, i.all_gap_rows),
                    );
                }
                if i.loader_bits != i.k_bits && i.loader_bits == 64 {
                    probe("store_file_only_readable_as_64");
                }
                Ok(i.table)
            }
        }
    }
    fn model(&self, name: &str) -> Result<&MFile, Stop> {
        self.store.get(name).ok_or_else(|| Stop::Invalid(format!("no file {name}")))
    }
    fn build_args(&self, out: &str, idx: &[usize], k: usize, ss: bool, list: bool, threads: usize) -> Vec<String> {
        let mut a = vec!["build".to_string(), "-o".into(), out.into(), "-k".into(), k.to_string()];
        if ss {
            a.push("--single-strand".into());
        }
        if threads > 1 {
            a.push("--threads".into());
            a.push(threads.to_string());
        }
        let any_fastq = idx.iter().any(|i| self.c.fastq.contains_key(i));
        if (list || any_fastq) && !idx.iter().any(|i| self.c.samples[*i].name.contains(char::is_whitespace)) {
            let l: String = idx
                .iter()
                .map(|i| {
                    let s = &self.c.samples[*i];
                    if self.c.fastq.contains_key(i) {
                        format!("{}\t{}_1.fastq\t{}_2.fastq\n", s.name, s.name, s.name)
                    } else {
                        format!("{}\t{}\n", s.name, s.file())
                    }
                })
                .collect();
            let lname = format!("{out}.list");
            self.dir.write(&lname, l.as_bytes());
            a.push("-f".into());
            a.push(lname);
        } else {
            a.extend(idx.iter().map(|i| self.c.samples[*i].file()));
        }
        a
    }
    /// `ska build` of the given samples in this order (the differential side of C07/C08)
    fn joint_build(&mut self, idx: &[usize], k: usize, ss: bool, what: &str) -> Result<Table, Stop> {
        let a = self.build_args(".joint", idx, k, ss, false, 1);
        let r = self.run(a)?;
        if !r.ok() {
            return Err(Stop::Invalid(format!("joint build refused: {}", r.stderr_tail())));
        }
        let t = self.inspect(".joint", what)?;
        self.dir.remove(".joint.skf");
        Ok(t)
    }
    fn weed_set(&mut self, weed: &str, k: usize, rc: bool) -> Result<BTreeSet<u128>, Stop> {
        let key = (weed.to_string(), k, rc);
        if let Some(s) = self.weed_sets.get(&key) {
            return Ok(s.clone());
        }
        if !self.c.extra.contains_key(weed) {
            return Err(Stop::Invalid(format!("no weed file {weed}")));
        }
        let mut a = vec!["build".to_string(), "-o".into(), ".weedset".into(), "-k".into(), k.to_string()];
        if !rc {
            a.push("--single-strand".into());
        }
        a.push(weed.to_string());
        let r = self.run(a)?;
        if !r.ok() {
            return Err(Stop::Invalid(format!("weed set build refused: {}", r.stderr_tail())));
        }
        let t = self.inspect(".weedset", "weedset")?;
        self.dir.remove(".weedset.skf");
        let s: BTreeSet<u128> = t.rows.keys().copied().collect();
        // An N only breaks windows: the k-mers occurring in a record with N's are those of its N-free
        // stretches. The same weed file written with every stretch as a record of its own must give
        // the same set (no model of k-mer extraction involved: the builder is compared with itself).
        let text = self.c.extra[weed].clone();
        if text.lines().any(|l| !l.starts_with('>') && l.contains('N')) {
            let mut recs: Vec<String> = vec![];
            for l in text.lines() {
                if l.starts_with('>') {
                    recs.push(String::new());
                } else if let Some(r) = recs.last_mut() {
                    r.push_str(l);
                }
            }
            let mut split = String::new();
            let mut i = 0;
            let mut exactly_k = false;
            for r in recs {
                for seg in r.split('N').filter(|x| !x.is_empty()) {
                    // a record of exactly k bases is the known corner of the builder that C01 (not
                    // claimed here) is about: it would make the two spellings differ for that reason
                    exactly_k |= seg.len() == k;
                    split.push_str(&format!(">seg{i}\n{seg}\n"));
                    i += 1;
                }
            }
            if exactly_k {
                self.weed_sets.insert(key, s.clone());
                return Ok(s);
            }
            self.dir.write(".weedsplit.fa", split.as_bytes());
            let mut a = vec!["build".to_string(), "-o".into(), ".weedsplit".into(), "-k".into(), k.to_string()];
            if !rc {
                a.push("--single-strand".into());
            }
            a.push(".weedsplit.fa".into());
            let r = self.run(a)?;
            if r.ok() {
                let t2 = self.inspect(".weedsplit", "weedset")?;
                let s2: BTreeSet<u128> = t2.rows.keys().copied().collect();
                self.dir.remove(".weedsplit.skf");
                if s2 != s {
                    // the BUILDER reads the two spellings differently: C13 is about `weed`, which is
                    // compared with itself on the two spellings by Op::WeedSpelling (n-free-stretches)
                    probe("builder_reads_a_record_with_N_and_its_stretches_differently");
                } else {
                    probe("weedset_with_N_checked_against_split_records");
                }
            }
            self.dir.remove(".weedsplit.fa");
        }
        self.weed_sets.insert(key, s.clone());
        Ok(s)
    }
    fn weed_args(&self, file: &str, o: &WeedOpts, n: usize, out: Option<&str>) -> Result<Vec<String>, Stop> {
        let mut a = vec!["weed".to_string(), skf(file)];
        if let Some(w) = &o.weed {
            a.push(w.clone());
        }
        if let Some(out) = out {
            a.push("-o".into());
            a.push(skf(out));
        }
        if o.reverse {
            a.push("--reverse".into());
        }
        let f = exact_freq(o.min_count, n).ok_or_else(|| Stop::Invalid("threshold not exactly representable".into()))?;
        a.push("--min-freq".into());
        a.push(f);
        if o.ambig_missing {
            a.push("--filter-ambig-as-missing".into());
        }
        a.push("--filter".into());
        a.push(o.filter.cli().into());
        if o.ambig_mask {
            a.push("--ambig-mask".into());
        }
        if o.no_gap_only {
            a.push("--no-gap-only-sites".into());
        }
        Ok(a)
    }
    fn weed_model(&mut self, t: &Table, o: &WeedOpts) -> Result<Table, Stop> {
        // oracle neutrality (DESIGN 1.6): only parameter combinations the documentation decides
        if o.min_count > t.n() {
            return Err(Stop::Invalid("threshold above sample count".into()));
        }
        if o.ambig_missing && o.min_count == 0 && (o.filter != SiteFilter::NoFilter || o.ambig_mask || o.no_gap_only) {
            // (with a site filter or mask the documentation does not say whether rows holding only
            // ambiguity codes go; alone, "--filter-ambig-as-missing" with no frequency threshold has
            // nothing to count, and nothing is filtered)
            return Err(Stop::Invalid("ambig-as-missing with threshold 0 next to another filter is undocumented".into()));
        }
        if o.no_gap_only && o.filter != SiteFilter::NoConst {
            return Err(Stop::Invalid("no-gap-only-sites only documented with no-const".into()));
        }
        let mut m = t.clone();
        if let Some(w) = &o.weed {
            let s = self.weed_set(w, t.k, t.rc)?;
            m = m.weed(&s, o.reverse);
        }
        if o.min_count > 0 || o.filter != SiteFilter::NoFilter || o.ambig_mask || o.no_gap_only {
            m = m.filter(&FilterOpts {
                min_count: o.min_count,
                ambig_missing: o.ambig_missing,
                filter: o.filter,
                ambig_mask: o.ambig_mask,
                no_gap_only: o.no_gap_only,
            });
        }
        Ok(m)
    }
    fn align_args(file: &str, a: &AlignJ, n: usize) -> Vec<String> {
        let mut v = vec![
            "align".to_string(),
            skf(file),
            "--min-freq".into(),
            freq_setting(a.min_count, a.pct, n).map(|x| x.0).unwrap_or("0".into()),
            "--filter".into(),
            a.filter.cli().into(),
        ];
        if a.ambig_missing {
            v.push("--filter-ambig-as-missing".into());
        }
        if a.ambig_mask {
            v.push("--ambig-mask".into());
        }
        if a.no_gap_only {
            v.push("--no-gap-only-sites".into());
        }
        v
    }
    fn distance_args(file: &str, j: usize, pct: Option<u32>, n: usize, allow: bool, threads: usize) -> Vec<String> {
        let mut v = vec!["distance".to_string(), skf(file), "--min-freq".into(), freq_setting(j, pct, n).map(|x| x.0).unwrap_or("0".into())];
        if allow {
            v.push("--allow-ambiguous".into());
        }
        if threads > 1 {
            v.push("--threads".into());
            v.push(threads.to_string());
        }
        v
    }
    /// parsed alignment: (names, sorted columns)
    fn align_out(r: &ProcOut, what: &str) -> Result<(Vec<String>, Vec<Vec<u8>>), Stop> {
        if !r.ok() {
            return viol(&format!("{what}:align-fails"), format!("{}: {}", r.status_str(), r.stderr_tail()));
        }
        let (names, seqs) = match parse_fasta(&r.stdout) {
            Ok(x) => x,
            Err(e) => return viol(&format!("{what}:align-malformed"), e),
        };
        match columns(&seqs) {
            Ok(c) => Ok((names, c)),
            Err(e) => viol(&format!("{what}:align-unequal-lengths"), e),
        }
    }

    fn step(&mut self, op: &Op) -> Result<(), Stop> {
        match op {
            Op::Build { out, samples, k, single_strand, list, threads } => {
                if samples.is_empty() || samples.iter().any(|i| *i >= self.c.samples.len()) {
                    return Err(Stop::Invalid("bad sample index".into()));
                }
                let a = self.build_args(out, samples, *k, *single_strand, *list, *threads);
                let r = self.run(a)?;
                if !r.ok() {
                    return Err(Stop::Invalid(format!("build refused: {}", r.stderr_tail())));
                }
                let t = self.inspect(out, "build")?;
                let names: Vec<String> = samples.iter().map(|i| self.c.samples[*i].name.clone()).collect();
                if t.names != names {
                    // how a sample name is derived from a file path is no listed property's business
                    probe("build_derived_other_sample_names_than_expected");
                    return Err(Stop::Invalid(format!("build named the samples {:?}, the case expects {names:?}", t.names)));
                }
                if t.k != *k || t.rc == *single_strand {
                    return viol("build:wrong-header", format!("expected k={k} rc={}, file has {}", !single_strand, t.summary()));
                }
                self.store.insert(out.clone(), MFile { table: t, sources: Some(samples.clone()) });
            }
            Op::Merge { out, inputs } => {
                if inputs.len() < 2 {
                    return Err(Stop::Invalid("merge needs two inputs".into()));
                }
                let mut tabs = vec![];
                for i in inputs {
                    tabs.push(self.model(i)?.table.clone());
                }
                let all_names: Vec<&String> = tabs.iter().flat_map(|t| t.names.iter()).collect();
                if self.c.focus != "C07" && all_names.iter().collect::<BTreeSet<_>>().len() != all_names.len() {
                    return Err(Stop::Invalid("duplicate sample names across inputs".into()));
                }
                let expected = Table::merge(&tabs.iter().collect::<Vec<_>>());
                let before = self.snapshot();
                let mut a = vec!["merge".to_string()];
                a.extend(inputs.iter().map(|i| skf(i)));
                a.push("-o".into());
                // the output prefix may be given with or without the suffix
                a.push(if (crate::util::fnv_str(out) ^ self.c.sim_seed) % 3 == 0 { skf(out) } else { out.clone() });
                let r = self.run(a)?;
                match expected {
                    Err(why) => {
                        fault("refuse_merge");
                        if !r.refused() {
                            return viol("merge:mismatch-not-refused", format!("inputs differ in {why} but merge ended with {}", r.status_str()));
                        }
                        // "no output file is written", and a refusal does not touch what was there;
                        // anything else a refused merge leaves behind (a temporary file) is a probe
                        let after = self.snapshot();
                        let touched: Vec<&String> = before.keys().filter(|k| before.get(*k) != after.get(*k)).collect();
                        let wrote_output = [skf(out), out.clone()].iter().any(|o| !before.contains_key(o) && after.contains_key(o));
                        if !touched.is_empty() || wrote_output {
                            return viol("merge:refusal-changed-files", format!("refused merge ({why}) changed the directory: changed or removed {touched:?}, output written: {wrote_output}; before {:?} after {:?}", before.keys().collect::<Vec<_>>(), after.keys().collect::<Vec<_>>()));
                        }
                        let stray: Vec<String> = after.keys().filter(|k| !before.contains_key(*k)).cloned().collect();
                        if !stray.is_empty() {
                            probe("refused_merge_left_stray_files");
                            for f in stray {
                                self.dir.remove(&f);
                            }
                        }
                    }
                    Ok(exp) => {
                        if !r.ok() {
                            let all_names: Vec<&String> = tabs.iter().flat_map(|t| t.names.iter()).collect();
                            if r.refused() && all_names.iter().collect::<BTreeSet<_>>().len() != all_names.len() && self.snapshot() == before {
                                // inputs that share a sample name, refused cleanly: decides nothing
                                probe("merge_refuses_inputs_that_share_a_sample_name");
                                return Err(Stop::Invalid("equal sample names refused".into()));
                            }
                            return viol("merge:fails", format!("merge of compatible files {inputs:?} ended with {}: {}", r.status_str(), r.stderr_tail()));
                        }
                        let got = self.inspect(out, "merge")?;
                        if got != exp {
                            return viol("merge:differs-from-model", format!("merge {inputs:?}: {}", exp.diff(&got)));
                        }
                        let srcs: Option<Vec<usize>> = inputs.iter().map(|i| self.store[i].sources.clone()).collect::<Option<Vec<_>>>().map(|v| v.concat());
                        if let Some(s) = &srcs {
                            let joint = self.joint_build(s, exp.k, !exp.rc, "merge")?;
                            if joint != got {
                                return viol("merge:differs-from-joint-build", format!("merge {inputs:?} vs ska build of all source samples: {}", got.diff(&joint)));
                            }
                            probe("merge_checked_against_joint_build");
                        }
                        if inputs.iter().any(|i| self.store[i].table.n() > 1) {
                            probe("merge_with_multisample_input");
                        }
                        self.store.insert(out.clone(), MFile { table: exp, sources: srcs });
                    }
                }
            }
            Op::Delete { file, names, via_file, out } => {
                let (table, sources) = {
                    let m = self.model(file)?;
                    (m.table.clone(), m.sources.clone())
                };
                // a name may be given more than once: the request still names the same set of samples
                let repeated = names.iter().collect::<BTreeSet<_>>().len() != names.len();
                if repeated && table.names.iter().collect::<BTreeSet<_>>().len() != table.names.len() {
                    return Err(Stop::Invalid("repeated names in the request and equal names in the file".into()));
                }
                let rep = if repeated { "[name-given-twice]" } else { "" };
                if repeated {
                    probe("delete_request_with_a_name_given_twice");
                }
                let expected = table.delete(names);
                let before = self.snapshot();
                let mut a = vec!["delete".to_string(), "--skf-file".into(), skf(file)];
                if let Some(o) = out {
                    a.push("-o".into());
                    a.push(if (crate::util::fnv_str(o) ^ self.c.sim_seed) % 3 == 0 { skf(o) } else { o.clone() });
                }
                if *via_file {
                    let l: String = names.iter().map(|n| format!("{n}\n")).collect();
                    self.dir.write("names.txt", l.as_bytes());
                    a.push("-f".into());
                    a.push("names.txt".into());
                    probe("delete_names_file_route");
                } else {
                    if names.is_empty() {
                        return Err(Stop::Invalid("empty name list needs the names-file route".into()));
                    }
                    a.extend(names.iter().cloned());
                }
                let before = if *via_file { self.snapshot() } else { before };
                let r = self.run(a)?;
                if names.is_empty() {
                    // an empty names file: C08 speaks of non-empty proper subsets, of unknown names and
                    // of all samples; whether nothing-to-delete is an error is not stated
                    probe("delete_with_an_empty_names_file");
                    return Err(Stop::Invalid("empty request".into()));
                }
                if repeated && r.refused() && self.snapshot() == before {
                    // a request with a repeated name that is refused cleanly decides nothing either
                    probe("delete_refuses_a_request_with_a_repeated_name");
                    return Err(Stop::Invalid("repeated name refused".into()));
                }
                match expected {
                    Err(why) => {
                        fault("refuse_delete");
                        if !r.refused() {
                            return viol(&format!("delete:bad-names-not-refused{rep}"), format!("{why} (request {names:?}): delete ended with {}", r.status_str()));
                        }
                        let after = self.snapshot();
                        let touched: Vec<&String> = before.keys().filter(|k| before.get(*k) != after.get(*k)).collect();
                        let wrote_output = out.as_ref().map(|o| [skf(o), o.clone()].iter().any(|x| !before.contains_key(x) && after.contains_key(x))).unwrap_or(false);
                        if !touched.is_empty() || wrote_output {
                            return viol("delete:refusal-changed-files", format!("refused delete ({why}) changed or removed {touched:?}, output written: {wrote_output}"));
                        }
                        let stray: Vec<String> = after.keys().filter(|k| !before.contains_key(*k)).cloned().collect();
                        if !stray.is_empty() {
                            probe("refused_delete_left_stray_files");
                            for f in stray {
                                self.dir.remove(&f);
                            }
                        }
                    }
                    Ok(exp) => {
                        if !r.ok() {
                            let sig = format!("{}{rep}", if *via_file { "delete:names-file-route-fails" } else { "delete:fails" });
                            return viol(&sig, format!("delete {names:?} from {file} (names file: {via_file}) ended with {}: {}", r.status_str(), r.stderr_tail()));
                        }
                        let target = out.clone().unwrap_or(file.clone());
                        let got = self.inspect(&target, "delete")?;
                        if got != exp {
                            return viol(&format!("delete:differs-from-model{rep}"), format!("delete {names:?}: {}", exp.diff(&got)));
                        }
                        let srcs: Option<Vec<usize>> = sources.map(|s| {
                            s.into_iter().filter(|i| !names.contains(&self.c.samples[*i].name)).collect()
                        });
                        if let Some(s) = &srcs {
                            let joint = self.joint_build(s, exp.k, !exp.rc, "delete")?;
                            if joint != got {
                                return viol("delete:differs-from-build-of-remaining", format!("delete {names:?} vs ska build of the remaining samples: {}", got.diff(&joint)));
                            }
                            probe("delete_checked_against_build_of_remaining");
                        }
                        if exp.rows.len() < table.rows.len() {
                            probe("delete_removed_private_kmers");
                        }
                        if out.is_none() {
                            probe("delete_in_place");
                        }
                        self.store.insert(target, MFile { table: exp, sources: srcs });
                    }
                }
            }
            Op::Weed { file, o, out } => {
                let table = self.model(file)?.table.clone();
                let exp = self.weed_model(&table, o)?;
                let a = self.weed_args(file, o, table.n(), out.as_deref())?;
                let r = self.run(a)?;
                if !r.ok() {
                    return viol("weed:fails", format!("weed {o:?} on {file} ended with {}: {}", r.status_str(), r.stderr_tail()));
                }
                let target = out.clone().unwrap_or(file.clone());
                let got = self.inspect(&target, "weed")?;
                if got != exp {
                    return viol("weed:differs-from-model", format!("weed {o:?}: {}", exp.diff(&got)));
                }
                if o.weed.is_some() && exp.rows.len() < table.rows.len() && !exp.rows.is_empty() {
                    probe("weed_removed_some_not_all");
                }
                if o.ambig_missing {
                    probe("weed_with_ambig_as_missing");
                }
                if out.is_none() {
                    probe("weed_in_place");
                }
                self.store.insert(target, MFile { table: exp, sources: None });
            }
            Op::Resave { file } => {
                let table = self.model(file)?.table.clone();
                let r = self.run(vec!["@resave".into(), skf(file), skf(file)])?;
                if !r.ok() {
                    return viol("resave:fails", format!("load/save round trip of {file} ended with {}: {}", r.status_str(), r.stderr_tail()));
                }
                let got = self.inspect(file, "resave")?;
                if got != table {
                    return viol("resave:content-changed", table.diff(&got));
                }
            }
            Op::WeedLaws { file, weed } => {
                let table = self.model(file)?.table.clone();
                let s = self.weed_set(weed, table.k, table.rc)?;
                let mk = |rev: bool| WeedOpts { weed: Some(weed.clone()), reverse: rev, min_count: 0, ambig_missing: false, filter: SiteFilter::NoFilter, ambig_mask: false, no_gap_only: false };
                let n = table.n();
                for (rev, outn) in [(false, ".wa"), (true, ".wb")] {
                    let a = self.weed_args(file, &mk(rev), n, Some(outn))?;
                    let r = self.run(a)?;
                    if !r.ok() {
                        return viol("weed:fails", format!("weed reverse={rev} ended with {}: {}", r.status_str(), r.stderr_tail()));
                    }
                }
                let a = self.inspect(".wa", "weed")?;
                let b = self.inspect(".wb", "weed")?;
                if a.names != table.names || b.names != table.names {
                    return viol("weed:names-changed", format!("{:?} / {:?} vs {:?}", a.names, b.names, table.names));
                }
                if a != table.weed(&s, false) {
                    return viol("weed:differs-from-model", format!("weed: {}", table.weed(&s, false).diff(&a)));
                }
                if b != table.weed(&s, true) {
                    return viol("weed:differs-from-model", format!("reverse weed: {}", table.weed(&s, true).diff(&b)));
                }
                // partition: disjoint, union = original with every base kept
                let mut u = a.rows.clone();
                for (k, v) in &b.rows {
                    if u.insert(*k, v.clone()).is_some() {
                        return viol("weed:not-a-partition", format!("k-mer {k:#x} in both weed and reverse-weed result"));
                    }
                }
                if u != table.rows {
                    return viol("weed:not-a-partition", "weed(F) + reverse-weed(F) != F".to_string());
                }
                // idempotence, in place this time
                let a2 = self.weed_args(".wa", &mk(false), n, None)?;
                let r = self.run(a2)?;
                if !r.ok() {
                    return viol("weed:fails", format!("second weed ended with {}", r.status_str()));
                }
                let again = self.inspect(".wa", "weed")?;
                if again != a {
                    return viol("weed:not-idempotent", a.diff(&again));
                }
                if !a.rows.is_empty() && !b.rows.is_empty() {
                    probe("weedlaws_both_parts_nonempty");
                }
                self.dir.remove(".wa.skf");
                self.dir.remove(".wb.skf");
            }
            Op::WeedOddName { file, weed, ext, reverse } => {
                let table = self.model(file)?.table.clone();
                let s = self.weed_set(weed, table.k, table.rc)?;
                let odd = format!("odd_copy{ext}");
                let Some(bytes) = self.dir.read(&skf(file)) else { return Err(Stop::Invalid("file missing".into())) };
                self.dir.write(&odd, &bytes);
                let before: BTreeSet<String> = self.dir.listing().into_iter().collect();
                let mut a = vec!["weed".to_string(), odd.clone(), weed.clone(), "--min-freq".into(), "0".into()];
                if *reverse {
                    a.push("--reverse".into());
                }
                let r = self.run(a)?;
                if !r.ok() {
                    return viol("weed:fails", format!("in-place weed of {odd} ended with {}: {}", r.status_str(), r.stderr_tail()));
                }
                let after: BTreeSet<String> = self.dir.listing().into_iter().collect();
                let got = match inspect(&self.dir.p(&odd)) {
                    Ok(i) => i.table,
                    Err(e) => return viol("weed:output-unreadable", format!("{odd}: {e}")),
                };
                let exp = table.weed(&s, *reverse);
                if got != exp {
                    return viol("weed:in-place-on-a-file-without-skf-suffix-differs", format!("ska weed {odd} {weed} (no -o): {}; files created: {:?}", exp.diff(&got), after.difference(&before).collect::<Vec<_>>()));
                }
                if after != before {
                    probe("in_place_weed_left_another_file");
                    for f in after.difference(&before) {
                        self.dir.remove(f);
                    }
                }
                probe("weed_in_place_on_file_without_skf_suffix");
                self.dir.remove(&odd);
            }
            Op::WeedSpelling { file, weed, style, salt, reverse } => {
                let table = self.model(file)?.table.clone();
                let Some(text) = self.c.extra.get(weed) else { return Err(Stop::Invalid("no weed file".into())) };
                let Some((name, bytes)) = respell(text, style, *salt, table.k, table.rc) else {
                    return Err(Stop::Invalid("spelling not applicable".into()));
                };
                // the same weed with the file as it is ..
                let mut a0 = vec!["weed".to_string(), skf(file), weed.clone(), "-o".into(), skf(".w0"), "--min-freq".into(), "0".into()];
                if *reverse {
                    a0.push("--reverse".into());
                }
                let r0 = self.run(a0)?;
                if !r0.ok() {
                    return viol("weed:fails", format!("weed with {weed} ended with {}: {}", r0.status_str(), r0.stderr_tail()));
                }
                let plain = self.inspect(".w0", "weed")?;
                self.dir.remove(".w0.skf");
                // .. and with the same sequences written another way
                self.dir.write(&name, &bytes);
                let mut a = vec!["weed".to_string(), skf(file), name.clone(), "-o".into(), skf(".ws"), "--min-freq".into(), "0".into()];
                if *reverse {
                    a.push("--reverse".into());
                }
                let r = self.run(a)?;
                if !r.ok() {
                    if r.refused() && matches!(style.as_str(), "lower" | "mixed-case" | "crlf" | "gz" | "short-records") {
                        // a reader that refuses an unusual spelling of the weed file decides nothing about C13
                        probe(&format!("weed_refuses_respelt_{style}"));
                        self.dir.remove(&name);
                        return Err(Stop::Invalid(format!("weed refuses the {style} spelling")));
                    }
                    return viol("weed:fails", format!("weed with {weed} respelt ({style}) ended with {}: {}", r.status_str(), r.stderr_tail()));
                }
                let got = self.inspect(".ws", "weed")?;
                if got != plain {
                    return viol(&format!("weed:same-sequences-written-differently-weed-differently[{style}]"), format!("{weed} as {name}: {}", plain.diff(&got)));
                }
                probe(&format!("weed_respelt_{style}"));
                self.dir.remove(".ws.skf");
                self.dir.remove(&name);
            }
            Op::Align { file, a } => {
                let table = self.model(file)?.table.clone();
                let Some((_, thr)) = freq_setting(a.min_count, a.pct, table.n()) else {
                    return Err(Stop::Invalid("frequency setting outside the documented domain".into()));
                };
                if a.no_gap_only && a.filter != SiteFilter::NoConst {
                    return Err(Stop::Invalid("align options outside the documented domain".into()));
                }
                if a.pct.is_some() {
                    probe("align_with_decimal_min_freq");
                }
                // a third of the alignments are written with -o instead of to the standard output
                let to_file = (crate::util::fnv_str(file) ^ self.c.sim_seed ^ self.nproc as u64) % 3 == 0;
                let mut args = Self::align_args(file, a, table.n());
                if to_file {
                    args.push("-o".into());
                    args.push("o/align.out".into());
                    if self.nproc % 2 == 0 {
                        // the output file exists already and is longer than what will be written
                        let stale: String = (0..table.n() + 2).map(|i| format!(">old{i}\n{}\n", "ACGT".repeat(60 + table.rows.len() / 4))).collect();
                        self.dir.write("o/align.out", stale.as_bytes());
                        probe("align_o_over_an_existing_longer_file");
                    }
                }
                let mut r = self.run(args)?;
                if to_file && r.ok() {
                    if !r.stdout.is_empty() {
                        probe("align_o_also_writes_to_stdout");
                    }
                    let Some(b) = self.dir.read("o/align.out") else { return viol("align:no-output-file", "align -o o/align.out wrote no file".into()) };
                    r.stdout = b;
                    self.dir.remove("o/align.out");
                    probe("align_written_with_o");
                }
                let (names, cols) = Self::align_out(&r, "align")?;
                let exp = table.align_columns(&FilterOpts { min_count: thr, ambig_missing: a.ambig_missing, filter: a.filter, ambig_mask: a.ambig_mask, no_gap_only: a.no_gap_only });
                if names != table.names {
                    return viol("align:wrong-names", format!("{names:?} vs {:?}", table.names));
                }
                if cols != exp {
                    let extra = cols.iter().find(|c| !exp.contains(c)).map(|c| String::from_utf8_lossy(c).to_string());
                    let missing = exp.iter().find(|c| !cols.contains(c)).map(|c| String::from_utf8_lossy(c).to_string());
                    return viol(
                        "align:columns-differ-from-predicate",
                        format!("align {a:?} on {} samples: {} columns emitted, {} expected; e.g. emitted-not-expected {extra:?}, expected-not-emitted {missing:?}", table.n(), cols.len(), exp.len()),
                    );
                }
                if exp.len() < table.rows.len() && !exp.is_empty() {
                    probe(&format!("align_filter_{}_removed_some", a.filter.cli()));
                }
                if exp.len() > 8192 {
                    probe("align_with_more_than_8192_columns");
                }
                if table.rows.values().any(|r| r.iter().filter(|b| **b != b'-').count() == thr) {
                    probe("align_threshold_equals_a_row_count");
                }
            }
            Op::Distance { file, min_count, pct, allow_ambig, threads } => {
                let table = self.model(file)?.table.clone();
                if table.has_ambig() {
                    // C14 speaks of files without ambiguity codes
                    return Err(Stop::Invalid("table with ambiguity codes: outside C14".into()));
                }
                let Some((_, thr)) = freq_setting(*min_count, *pct, table.n()) else {
                    return Err(Stop::Invalid("frequency setting outside the documented domain".into()));
                };
                let min_count = &thr;
                if pct.is_some() {
                    probe("distance_with_decimal_min_freq");
                }
                let to_file = (crate::util::fnv_str(file) ^ self.c.sim_seed ^ self.nproc as u64) % 3 == 0;
                let mut args = Self::distance_args(file, *min_count, *pct, table.n(), *allow_ambig, *threads);
                if to_file {
                    args.push("-o".into());
                    args.push("o/distance.out".into());
                    if self.nproc % 2 == 0 {
                        let n = table.n() + 3;
                        let stale: String = std::iter::once("Sample1\tSample2\tDistance\tMismatches\n".to_string()).chain((0..n * n).map(|i| format!("old{i}\told{}\t12345.00\t0.99999\n", i + 1))).collect();
                        self.dir.write("o/distance.out", stale.as_bytes());
                        probe("distance_o_over_an_existing_longer_file");
                    }
                }
                let mut r = self.run(args)?;
                if !r.ok() {
                    return viol("distance:fails", format!("{}: {}", r.status_str(), r.stderr_tail()));
                }
                if to_file {
                    if !r.stdout.is_empty() {
                        probe("distance_o_also_writes_to_stdout");
                    }
                    let Some(b) = self.dir.read("o/distance.out") else { return viol("distance:no-output-file", "distance -o o/distance.out wrote no file".into()) };
                    r.stdout = b;
                    self.dir.remove("o/distance.out");
                    probe("distance_written_with_o");
                }
                let got = match parse_distance(&r.stdout) {
                    Ok(g) => g,
                    Err(e) => return viol("distance:malformed-output", e),
                };
                let n = table.n();
                if got.len() != n * (n - 1) / 2 {
                    return viol("distance:pairs-missing", format!("{} pairs reported for {n} samples", got.len()));
                }
                for ((a, b), (d, m)) in &got {
                    let mm: f64 = m.parse().unwrap_or(-1.0);
                    let dd: f64 = d.parse().unwrap_or(-1.0);
                    if !(0.0..=1.0).contains(&mm) || dd < 0.0 {
                        return viol("distance:out-of-range", format!("{a} {b}: {d} {m}"));
                    }
                }
                if !table.has_ambig() {
                    for (i, j, snps, mm) in table.distance(*min_count) {
                        let (a, b) = (&table.names[i], &table.names[j]);
                        let key = if a <= b { (a.clone(), b.clone()) } else { (b.clone(), a.clone()) };
                        let exp = (format!("{snps:.2}"), format!("{mm:.5}"));
                        match got.get(&key) {
                            Some(g) if distance_agrees(g, snps, mm) => {}
                            g => {
                                let sig = if *min_count >= 1 { "distance:differs-from-definition-with-min-freq" } else { "distance:differs-from-definition" };
                                return viol(sig, format!("pair {key:?} min_count={min_count} of {n} samples: reported {g:?}, definition gives {exp:?}"));
                            }
                        }
                    }
                    probe("distance_checked_against_definition");
                    if table.rows.len() > 16384 {
                        probe("distance_on_table_with_more_than_16384_rows");
                    }
                    if *min_count >= 2 && table.rows.values().any(|r| r.iter().filter(|b| **b != b'-').count() < *min_count) {
                        probe("distance_min_freq_dropped_rows");
                    }
                }
            }
            Op::DistancePermuted { file, perm_seed } => {
                let (table, sources) = {
                    let m = self.model(file)?;
                    (m.table.clone(), m.sources.clone())
                };
                let Some(mut src) = sources else { return Err(Stop::Invalid("no sources".into())) };
                if table.has_ambig() {
                    return Err(Stop::Invalid("table with ambiguity codes: outside C14".into()));
                }
                let r1 = self.run(Self::distance_args(file, 0, None, table.n(), false, 1))?;
                Rng::new(*perm_seed).shuffle(&mut src);
                let a = self.build_args(".perm", &src, table.k, !table.rc, false, 1);
                let rb = self.run(a)?;
                if !rb.ok() {
                    return Err(Stop::Invalid("permuted build refused".into()));
                }
                let r2 = self.run(Self::distance_args(".perm", 0, None, table.n(), false, 1))?;
                self.dir.remove(".perm.skf");
                match (parse_distance(&r1.stdout), parse_distance(&r2.stdout)) {
                    (Ok(a), Ok(b)) if r1.ok() && r2.ok() => {
                        let same = |x: &(String, String), y: &(String, String)| match (x.0.parse::<f64>(), x.1.parse::<f64>()) {
                            (Ok(d), Ok(m)) => distance_agrees(y, d, m),
                            _ => x == y,
                        };
                        if a.len() != b.len() || a.iter().any(|(k, v)| !b.get(k).map(|w| same(v, w)).unwrap_or(false)) {
                            let d = a.iter().find(|(k, v)| b.get(*k) != Some(*v));
                            return viol("distance:depends-on-sample-order", format!("first differing pair {d:?}"));
                        }
                    }
                    _ => return viol("distance:fails", "distance failed or malformed on permuted build".to_string()),
                }
                probe("distance_permutation_checked");
            }
            Op::Canon { file, observers } => {
                let table = self.model(file)?.table.clone();
                let r = self.run(vec!["@resave".into(), skf(file), skf(".canon")])?;
                if !r.ok() {
                    return viol("canon:resave-fails", format!("{}: {}", r.status_str(), r.stderr_tail()));
                }
                let canon = self.inspect(".canon", "canon")?;
                if canon != table {
                    return viol("canon:resaved-content-differs", table.diff(&canon));
                }
                let n = table.n();
                for ob in observers {
                    let pair: (ProcOut, ProcOut) = match ob {
                        Observer::Align(a) => {
                            if freq_setting(a.min_count, a.pct, n).is_none() {
                                continue;
                            }
                            (self.run(Self::align_args(file, a, n))?, self.run(Self::align_args(".canon", a, n))?)
                        }
                        Observer::Distance { min_count, pct, allow_ambig, threads } => {
                            if freq_setting(*min_count, *pct, n).is_none() {
                                continue;
                            }
                            (self.run(Self::distance_args(file, *min_count, *pct, n, *allow_ambig, *threads))?, self.run(Self::distance_args(".canon", *min_count, *pct, n, *allow_ambig, *threads))?)
                        }
                        Observer::Map { vcf, ambig_mask, repeat_mask } => {
                            let mk = |f: &str| {
                                let mut a = vec!["map".to_string(), "mapref.fa".into(), skf(f), "-f".into(), if *vcf { "vcf" } else { "aln" }.to_string()];
                                if *ambig_mask {
                                    a.push("--ambig-mask".into());
                                }
                                if *repeat_mask {
                                    a.push("--repeat-mask".into());
                                }
                                a
                            };
                            if !self.c.extra.contains_key("mapref.fa") {
                                continue;
                            }
                            (self.run(mk(file))?, self.run(mk(".canon"))?)
                        }
                        Observer::Nk => (self.run(vec!["nk".into(), skf(file), "--full-info".into()])?, self.run(vec!["nk".into(), skf(".canon"), "--full-info".into()])?),
                        Observer::Delete { names } => {
                            if names.is_empty() || names.len() >= n || names.iter().any(|x| !table.names.contains(x)) {
                                continue;
                            }
                            let mk = |f: &str, o: &str| {
                                let mut a = vec!["delete".to_string(), "--skf-file".into(), skf(f), "-o".into(), o.to_string()];
                                a.extend(names.iter().cloned());
                                a
                            };
                            (self.run(mk(file, ".od1"))?, self.run(mk(".canon", ".od2"))?)
                        }
                        Observer::Weed { weed, reverse } => {
                            if !self.c.extra.contains_key(weed) {
                                continue;
                            }
                            let mk = |f: &str, o: &str| {
                                let mut a = vec!["weed".to_string(), skf(f), weed.clone(), "-o".into(), skf(o), "--min-freq".into(), "0".into()];
                                if *reverse {
                                    a.push("--reverse".into());
                                }
                                a
                            };
                            (self.run(mk(file, ".od1"))?, self.run(mk(".canon", ".od2"))?)
                        }
                    };
                    let (r1, r2) = pair;
                    let kind = match ob {
                        Observer::Align(_) => "align",
                        Observer::Distance { .. } => "distance",
                        Observer::Map { .. } => "map",
                        Observer::Nk => "nk",
                        Observer::Delete { .. } => "delete",
                        Observer::Weed { .. } => "weed",
                    };
                    if r1.status_str() != r2.status_str() {
                        return viol(&format!("history:{kind}-status-differs"), format!("{ob:?}: {} on the history's file, {} on a freshly saved file with the same content: {}", r1.status_str(), r2.status_str(), if r1.ok() { r2.stderr_tail() } else { r1.stderr_tail() }));
                    }
                    if !r1.ok() {
                        continue; // refused on both (e.g. nothing maps to the reference)
                    }
                    let same = match ob {
                        Observer::Align(_) => Self::align_out(&r1, "history")? == Self::align_out(&r2, "history")?,
                        Observer::Distance { .. } => match (parse_distance(&r1.stdout), parse_distance(&r2.stdout)) {
                            (Ok(a), Ok(b)) => {
                                // row order differs between F and F': with ambiguity codes the float sums may
                                // differ in the last place, so the SNP column is compared with a tolerance
                                a.len() == b.len()
                                    && a.iter().all(|(k, (d, m))| match b.get(k) {
                                        Some((d2, m2)) => m == m2 && (d == d2 || (table.has_ambig() && (d.parse::<f64>().unwrap_or(0.0) - d2.parse::<f64>().unwrap_or(9e9)).abs() <= 0.0101)),
                                        None => false,
                                    })
                            }
                            (Err(_), Err(_)) => {
                                let lines = |o: &[u8]| {
                                    let mut v: Vec<String> = String::from_utf8_lossy(o).lines().map(|l| l.to_string()).collect();
                                    v.sort();
                                    v
                                };
                                lines(&r1.stdout) == lines(&r2.stdout)
                            }
                            _ => false,
                        },
                        // (meta lines may name the input file, which differs between the two sides)
                        Observer::Map { .. } => {
                            let body = |o: &[u8]| String::from_utf8_lossy(o).lines().filter(|l| !l.starts_with("##")).map(|l| l.to_string()).collect::<Vec<_>>();
                            body(&r1.stdout) == body(&r2.stdout)
                        }
                        Observer::Nk => {
                            let norm = |o: &[u8]| {
                                let s = String::from_utf8_lossy(o).to_string();
                                let mut head: Vec<String> = vec![];
                                let mut rows: Vec<String> = vec![];
                                for l in s.lines() {
                                    if l.contains('\t') {
                                        rows.push(l.to_string())
                                    } else {
                                        head.push(l.to_string())
                                    }
                                }
                                rows.sort();
                                (head, rows)
                            };
                            norm(&r1.stdout) == norm(&r2.stdout)
                        }
                        Observer::Delete { .. } | Observer::Weed { .. } => {
                            let a = self.inspect(".od1", "history")?;
                            let b = self.inspect(".od2", "history")?;
                            self.dir.remove(".od1.skf");
                            self.dir.remove(".od2.skf");
                            a == b
                        }
                    };
                    if !same {
                        return viol(
                            &format!("history:{kind}-differs-on-same-content"),
                            format!("{ob:?} gives different results on the history's file and on a freshly saved file with identical content ({})", table.summary()),
                        );
                    }
                    probe(&format!("canon_observer_{kind}"));
                }
                self.dir.remove(".canon.skf");
            }
        }
        Ok(())
    }
}

// ------------------------------------------------------------------ generation
fn gen_alignj(rng: &mut Rng, n: usize) -> AlignJ {
    let filter = SiteFilter::ALL[rng.below(4)];
    let pct = if rng.chance(35) { Some(*rng.pick(&PCTS)).filter(|p| pct_threshold(*p, n).is_some()) } else { None };
    AlignJ {
        min_count: rng.below(n + 1),
        pct,
        filter,
        ambig_missing: rng.chance(40),
        ambig_mask: rng.chance(35),
        no_gap_only: filter == SiteFilter::NoConst && rng.chance(50),
    }
}

fn gen_weedopts(rng: &mut Rng, n: usize, weeds: &[String], filters: bool) -> WeedOpts {
    let weed = if weeds.is_empty() || (filters && rng.chance(30)) { None } else { Some(rng.pick(weeds).clone()) };
    if !filters {
        return WeedOpts { weed, reverse: rng.chance(40), min_count: 0, ambig_missing: false, filter: SiteFilter::NoFilter, ambig_mask: false, no_gap_only: false };
    }
    // thresholds the CLI can express exactly
    let js: Vec<usize> = (0..=n).filter(|j| exact_freq(*j, n).is_some()).collect();
    let min_count = *rng.pick(&js);
    let filter = SiteFilter::ALL[rng.below(4)];
    let mut o = WeedOpts {
        weed,
        reverse: rng.chance(25),
        min_count,
        ambig_missing: if min_count >= 1 { rng.chance(50) } else { rng.chance(15) },
        filter,
        ambig_mask: rng.chance(30),
        no_gap_only: filter == SiteFilter::NoConst && rng.chance(40),
    };
    if o.min_count == 0 && o.ambig_missing {
        // the flag on its own: no threshold to apply it to, so nothing is filtered
        o.filter = SiteFilter::NoFilter;
        o.ambig_mask = false;
        o.no_gap_only = false;
    }
    o
}

fn gen_observers(rng: &mut Rng, n: usize, names: &[String], weeds: &[String], count: usize) -> Vec<Observer> {
    (0..count)
        .map(|_| match rng.below(9) {
            0..=2 => Observer::Align(gen_alignj(rng, n)),
            3 => Observer::Distance { min_count: rng.below(n + 1), pct: if rng.chance(35) { Some(*rng.pick(&PCTS)).filter(|p| pct_threshold(*p, n).is_some()) } else { None }, allow_ambig: rng.chance(50), threads: rng.range(1, 3) },
            4 => Observer::Map { vcf: rng.chance(50), ambig_mask: rng.chance(30), repeat_mask: rng.chance(30) },
            5 => Observer::Nk,
            6 if n >= 2 => {
                let sub = rng.proper_subset(n);
                Observer::Delete { names: sub.iter().map(|i| names[*i].clone()).collect() }
            }
            7 if !weeds.is_empty() => Observer::Weed { weed: rng.pick(weeds).clone(), reverse: rng.chance(40) },
            _ => Observer::Align(gen_alignj(rng, n)),
        })
        .collect()
}

impl StoreWorkload {
    fn gen(&self, seed: u64, tier: Tier) -> StoreCase {
        let mut rng = Rng::new(seed);
        let focus = self.focus;
        // C10 "stale state" scenario (30% of C10 runs): a weed that counts only unambiguous bases,
        // then operations that depend on per-k-mer counts, on data rich in ambiguity codes
        let stale = focus == "C10" && rng.chance(30);
        // C10 "emptied table" scenario (6% of C10 runs): a file weeded down to zero k-mers (its
        // samples remain) takes part in merges, first and last
        let emptied = focus == "C10" && !stale && rng.chance(8);
        let k = if (stale && rng.chance(60)) || (matches!(focus, "C06" | "C10") && rng.chance(15)) { *rng.pick(&[5usize, 7, 7, 9]) } else { pick_k(&mut rng) };
        let ss = rng.chance(30);
        let max_n = match (focus, tier) {
            ("C06", Tier::Thorough) | ("C14", Tier::Thorough) => 12,
            ("C06", _) | ("C14", _) if rng.chance(20) => 12,
            _ => 8,
        };
        let n = match focus {
            "C06" => rng.range(1, max_n),
            "C13" if rng.chance(10) => 1,
            _ => rng.range(2, max_n),
        };
        let mut o = GenomeOpts::swarm(&mut rng, k);
        if focus == "C14" && rng.chance(85) {
            // C14 speaks of tables without ambiguity codes (the rest of the runs end at the first
            // distance on a table that has some)
            o.repeats = false;
            o.palindromes = false;
        }
        if matches!(focus, "C14" | "C06") && rng.chance(if tier == Tier::Quick { 2 } else { 4 }) {
            // a large table (tens of thousands of variable rows): per-pair work is then big
            // enough for any chunked / parallel accumulation to split it
            let k = *rng.pick(&[21usize, 31, 33]);
            let n = rng.range(2, 3);
            let core_len = rng.range(3000, 6000);
            let core = rng.dna(core_len);
            let samples: Vec<Sample> = (0..n)
                .map(|i| {
                    let mut c = core.clone();
                    for _ in 0..rng.range(0, 30) {
                        let p = rng.below(c.len());
                        c[p] = rng.base();
                    }
                    let own_len = rng.range(7000, 10000);
                    Sample { name: format!("s{i}"), records: vec![("core".into(), c), ("own".into(), rng.dna(own_len))], wrap: 70, path: None, lower: false }
                })
                .collect();
            let mut ops = vec![Op::Build { out: "b1".into(), samples: (0..n).collect(), k, single_strand: rng.chance(30), list: false, threads: 1 }];
            if focus == "C14" {
                for t in [1usize, 2, 4] {
                    ops.push(Op::Distance { file: "b1".into(), min_count: 0, pct: None, allow_ambig: rng.chance(50), threads: t });
                }
                if n == 3 {
                    ops.push(Op::Distance { file: "b1".into(), min_count: 2, pct: None, allow_ambig: false, threads: 3 });
                }
            } else {
                // tens of thousands of columns
                ops.push(Op::Align { file: "b1".into(), a: AlignJ { min_count: 0, pct: None, filter: SiteFilter::NoFilter, ambig_missing: false, ambig_mask: false, no_gap_only: false } });
                ops.push(Op::Align { file: "b1".into(), a: gen_alignj(&mut rng, n) });
            }
            return StoreCase { fastq: BTreeMap::new(), focus: focus.to_string(), samples, extra: BTreeMap::new(), ops, sim_seed: rng.next_u64() >> 1 };
        }
        let fits64 = k >= 35 && matches!(focus, "C07" | "C10") && rng.chance(25);
        let mut samples = if fits64 { gen_fits64_samples(&mut rng, n, k, "s") } else { gen_samples(&mut rng, n, k, &o, "s") };
        if !fits64 && rng.chance(30) {
            crate::gen::vary_paths(&mut rng, &mut samples);
        }
        let mut fastq: BTreeMap<usize, (String, String)> = BTreeMap::new();
        if focus == "C07" && !fits64 && rng.chance(10) {
            // one or two samples come as paired reads; builds then go through a mixed file list
            for _ in 0..rng.range(1, 2) {
                let i = rng.below(n);
                if samples[i].path.is_none() && !samples[i].name.contains(char::is_whitespace) {
                    let g: Vec<u8> = samples[i].records.iter().flat_map(|r| r.1.clone()).filter(|b| *b != b'N').collect();
                    if g.len() > 3 * k {
                        fastq.insert(i, crate::gen::simulate_reads(&mut rng, &g, 30, (2 * k + 10).max(60)));
                    }
                }
            }
        }
        let mut dup_names = false;
        if focus == "C07" && n >= 2 && rng.chance(12) {
            // two different files whose names collide once directory and extension are stripped
            // (runA/sample.fa, runB/sample.fa): ska allows equal sample names
            let i = rng.below(n);
            let j = (i + 1 + rng.below(n - 1)) % n;
            if !samples[i].name.contains(".fa") && !samples[j].name.contains(".fa") {
                samples[j].name = samples[i].name.clone();
                samples[i].path = Some(format!("runA/{}.fa", samples[i].name));
                samples[j].path = Some(format!("runB/{}.{}", samples[j].name, if rng.chance(50) { "fa" } else { "fasta" }));
                dup_names = true;
            }
        }
        if focus == "C08" && rng.chance(25) {
            // unusual but legal sample names (they come from file names when building from
            // positional arguments): a space, a dot, a name that is a prefix of another
            let i = rng.below(n);
            samples[i].name = match rng.below(5) {
                0 => format!("s {i}"),
                1 => format!("s{}.v2", (i + 1) % n),
                // a comma, with the two parts being names of other samples, and other punctuation
                // that a shell-less command line passes through unchanged
                2 => format!("s{},s{}", (i + 1) % n, (i + 2) % n),
                3 => format!("s{i}{}x", ["=", ";", ":", "+", "#"][rng.below(5)]),
                _ => format!("s{}", (i + 1) % n * 10 + 1),
            };
            samples[i].path = None;
            let nm: BTreeSet<&String> = samples.iter().map(|s| &s.name).collect();
            if nm.len() != samples.len() {
                samples[i].name = format!("s{i}");
            }
        }
        let mut extra = BTreeMap::new();
        let nweed = rng.range(1, 3);
        let mut weeds = vec![];
        for i in 0..nweed {
            let name = format!("weed{i}.fa");
            extra.insert(name.clone(), gen_weed_fasta(&mut rng, &samples, k));
            weeds.push(name);
        }
        // a reference for `map` observers: one of the samples' sequences, single record
        let r = rng.pick(&samples);
        let joined: Vec<u8> = r.records.iter().flat_map(|x| x.1.clone()).collect();
        extra.insert("mapref.fa".into(), crate::util::wrap_fasta("chr1", &joined, 60));

        let mut ops: Vec<Op> = vec![];
        // files: name -> (sample names in column order)
        let mut files: BTreeMap<String, Vec<String>> = BTreeMap::new();
        let mut fresh = 0usize;
        // one name in eight lives in a sub-directory (created beforehand; ska does not create it)
        let mut name_rng = Rng::new(rng.next_u64());
        let mut newname = |p: &str| {
            fresh += 1;
            if name_rng.below(8) == 0 {
                format!("o/{p}{fresh}")
            } else {
                format!("{p}{fresh}")
            }
        };
        let sname = |i: usize| samples[i].name.clone();

        // starting files: a random partition of the samples into 1..4 built files
        let nparts = match focus {
            "C07" => rng.range(2, 4.min(n)),
            "C08" | "C13" | "C06" | "C14" => {
                if rng.chance(70) {
                    1
                } else {
                    rng.range(1, 3.min(n))
                }
            }
            _ if emptied => 2.min(n),
            _ => rng.range(1, 3.min(n)),
        };
        let mut order: Vec<usize> = (0..n).collect();
        rng.shuffle(&mut order);
        let mut parts: Vec<Vec<usize>> = vec![vec![]; nparts];
        for (pos, s) in order.iter().enumerate() {
            let p = if pos < nparts { pos } else { rng.below(nparts) };
            parts[p].push(*s);
        }
        for p in &parts {
            let out = newname("b");
            ops.push(Op::Build { out: out.clone(), samples: p.clone(), k, single_strand: ss, list: rng.chance(30), threads: rng.range(1, 3) });
            files.insert(out, p.iter().map(|i| sname(*i)).collect());
        }
        // merge everything into one file for the single-file focuses
        let merge_all = |rng: &mut Rng, ops: &mut Vec<Op>, files: &mut BTreeMap<String, Vec<String>>, out: String| {
            let mut ins: Vec<String> = files.keys().cloned().collect();
            rng.shuffle(&mut ins);
            let names: Vec<String> = ins.iter().flat_map(|f| files[f].clone()).collect();
            ops.push(Op::Merge { out: out.clone(), inputs: ins });
            files.insert(out, names);
        };

        match focus {
            "C07" => {
                // sometimes one input is not freshly built but the result of a delete
                if !dup_names && rng.chance(25) {
                    let cand: Vec<String> = files.iter().filter(|(_, v)| v.len() >= 2).map(|(k, _)| k.clone()).collect();
                    if let Some(f) = cand.first() {
                        let names = files[f].clone();
                        let gone = rng.pick(&names).clone();
                        let out = newname("d");
                        ops.push(Op::Delete { file: f.clone(), names: vec![gone.clone()], via_file: false, out: Some(out.clone()) });
                        files.remove(f);
                        files.insert(out, names.into_iter().filter(|x| *x != gone).collect());
                    }
                }
                // sometimes one input has been weeded down to zero k-mers (its samples remain); with
                // the shuffle below it is the first, a middle or the last argument
                if !dup_names && rng.chance(10) {
                    extra.insert("nomatch.fa".into(), crate::util::wrap_fasta("nm", &rng.dna(k + 20), 0));
                    let f = rng.pick(&files.keys().cloned().collect::<Vec<_>>()).clone();
                    let o = WeedOpts { weed: Some("nomatch.fa".into()), reverse: true, min_count: 0, ambig_missing: false, filter: SiteFilter::NoFilter, ambig_mask: false, no_gap_only: false };
                    ops.push(Op::Weed { file: f, o, out: None });
                }
                // a random merge tree over the parts, merged files merged again
                let mut pool: Vec<String> = files.keys().cloned().collect();
                rng.shuffle(&mut pool);
                while pool.len() > 1 {
                    let take = rng.range(2, pool.len().min(4));
                    let ins: Vec<String> = pool.drain(..take).collect();
                    // (now and then an output prefix with a dot in it)
                    let out = if rng.chance(10) { format!("{}.v{}", newname("m"), rng.range(1, 9)) } else { newname("m") };
                    let names: Vec<String> = ins.iter().flat_map(|f| files[f].clone()).collect();
                    ops.push(Op::Merge { out: out.clone(), inputs: ins });
                    files.insert(out.clone(), names);
                    let at = rng.below(pool.len() + 1);
                    pool.insert(at, out);
                }
                // refusals: one input rebuilt with another k or the other strand mode
                if rng.chance(30) {
                    let bad = newname("x");
                    // another k: a neighbour, one stored in the other integer width, or any other valid k
                    let (bk, bss) = if rng.chance(50) {
                        let other = match rng.below(4) {
                            0 => if k == 63 { 61 } else { k + 2 },
                            1 => if k == 5 { 7 } else { k - 2 },
                            2 => if k <= 31 { *rng.pick(&[33usize, 41, 63]) } else { *rng.pick(&[31usize, 21, 5]) },
                            _ => {
                                let mut o = pick_k(&mut rng);
                                while o == k {
                                    o = pick_k(&mut rng);
                                }
                                o
                            }
                        };
                        (other, ss)
                    } else {
                        (k, !ss)
                    };
                    let extra_sample = rng.below(n);
                    ops.push(Op::Build { out: bad.clone(), samples: vec![extra_sample], k: bk, single_strand: bss, list: false, threads: 1 });
                    let good: Vec<String> = files.iter().filter(|(_, v)| !v.contains(&sname(extra_sample))).map(|(k, _)| k.clone()).collect();
                    if !good.is_empty() {
                        let first = rng.pick(&good).clone();
                        let mut ins = vec![first.clone()];
                        // sometimes a third input, so that the mismatching file can come first, in the
                        // middle or last among files that do agree with each other
                        if rng.chance(40) {
                            let second: Vec<&String> = good.iter().filter(|g| files[*g].iter().all(|nm| !files[&first].contains(nm))).collect();
                            if !second.is_empty() {
                                let g2 = (*rng.pick(&second)).clone();
                                ins.push(g2);
                            }
                        }
                        let at = rng.below(ins.len() + 1);
                        ins.insert(at, bad);
                        let out = if rng.chance(50) { newname("r") } else { rng.pick(&good).clone() };
                        ops.push(Op::Merge { out, inputs: ins });
                    }
                }
            }
            "C08" => {
                if files.len() > 1 {
                    merge_all(&mut rng, &mut ops, &mut files, newname("m"));
                }
                let mut cur = files.keys().next_back().unwrap().clone();
                let ndel = rng.range(1, 3);
                for _ in 0..ndel {
                    let names = files[&cur].clone();
                    if names.len() < 2 {
                        break;
                    }
                    let via_file = rng.chance(40);
                    let roll = rng.below(10);
                    if roll == 0 {
                        // refusals
                        let bad: Vec<String> = match rng.below(5) {
                            0 => vec!["nosuchsample".into()],
                            1 => names.clone(),
                            4 => {
                                // every sample named, one of them twice
                                let mut all = names.clone();
                                all.push(rng.pick(&names).clone());
                                rng.shuffle(&mut all);
                                all
                            }
                            2 => vec![names[0].clone(), "nosuchsample".into()],
                            _ => vec![],
                        };
                        let vf = via_file || bad.is_empty();
                        ops.push(Op::Delete { file: cur.clone(), names: bad, via_file: vf, out: if rng.chance(50) { Some(newname("d")) } else { None } });
                        continue;
                    }
                    let sub = rng.proper_subset(names.len());
                    let mut del: Vec<String> = sub.iter().map(|i| names[*i].clone()).collect();
                    // names in any order, not only the file's column order
                    rng.shuffle(&mut del);
                    if rng.chance(12) {
                        // the same name given twice (or three times) in one request
                        for _ in 0..rng.range(1, 2) {
                            let again = rng.pick(&del).clone();
                            let at = rng.below(del.len() + 1);
                            del.insert(at, again);
                        }
                    }
                    let out = match rng.below(10) {
                        0..=3 => Some(newname("d")),
                        4 => Some(format!("{}.v{}", newname("d"), rng.range(1, 9))), // a dot in the prefix
                        5 => Some(cur.clone()), // -o naming the input itself
                        _ => None,
                    };
                    let target = out.clone().unwrap_or(cur.clone());
                    ops.push(Op::Delete { file: cur.clone(), names: del.clone(), via_file, out });
                    files.insert(target.clone(), names.into_iter().filter(|x| !del.contains(x)).collect());
                    cur = target;
                }
            }
            "C13" => {
                if files.len() > 1 {
                    merge_all(&mut rng, &mut ops, &mut files, newname("m"));
                }
                let cur = files.keys().next_back().unwrap().clone();
                let nn = files[&cur].len();
                for _ in 0..rng.range(1, 3) {
                    if rng.chance(12) {
                        let ext = ["", ".ska", ".skf.orig", ".v2"][rng.below(4)].to_string();
                        ops.push(Op::WeedOddName { file: cur.clone(), weed: rng.pick(&weeds).clone(), ext, reverse: rng.chance(30) });
                    } else if rng.chance(22) {
                        let w = rng.pick(&weeds).clone();
                        let has_n = extra.get(&w).map(|t: &String| t.lines().any(|l| !l.starts_with('>') && l.contains('N'))).unwrap_or(false);
                        let style = if has_n && rng.chance(60) {
                            "n-free-stretches-as-records".to_string()
                        } else {
                            ["lower", "mixed-case", "crlf", "gz", "wrap", "short-records", "overlapping-pieces", "revcomp", "duplicate-record"][rng.below(9)].to_string()
                        };
                        ops.push(Op::WeedSpelling { file: cur.clone(), weed: w, style, salt: rng.next_u64(), reverse: rng.chance(30) });
                    } else if rng.chance(50) {
                        ops.push(Op::WeedLaws { file: cur.clone(), weed: rng.pick(&weeds).clone() });
                    } else {
                        let o = gen_weedopts(&mut rng, nn, &weeds, false);
                        let out = if rng.chance(50) { Some(newname("w")) } else { None };
                        if let Some(o2) = &out {
                            files.insert(o2.clone(), files[&cur].clone());
                        }
                        ops.push(Op::Weed { file: cur.clone(), o, out });
                    }
                }
            }
            _ if emptied && files.len() == 2 => {
                let nomatch_len = k + 20;
                extra.insert("nomatch.fa".into(), crate::util::wrap_fasta("nm", &rng.dna(nomatch_len), 0));
                let fl: Vec<String> = files.keys().cloned().collect();
                let (a, b) = (fl[0].clone(), fl[1].clone());
                let o = WeedOpts { weed: Some("nomatch.fa".into()), reverse: true, min_count: 0, ambig_missing: false, filter: SiteFilter::NoFilter, ambig_mask: false, no_gap_only: false };
                ops.push(Op::Weed { file: a.clone(), o, out: None });
                if rng.chance(40) {
                    ops.push(Op::Resave { file: a.clone() });
                }
                let (m1, m2) = (newname("m"), newname("m"));
                ops.push(Op::Merge { out: m1.clone(), inputs: vec![a.clone(), b.clone()] });
                ops.push(Op::Merge { out: m2.clone(), inputs: vec![b.clone(), a.clone()] });
                let names: Vec<String> = files[&a].iter().chain(files[&b].iter()).cloned().collect();
                let obs = gen_observers(&mut rng, names.len(), &names, &weeds, 3);
                ops.push(Op::Canon { file: m1, observers: obs });
                if files[&a].len() >= 2 {
                    // deleting from the emptied file
                    ops.push(Op::Delete { file: a.clone(), names: vec![files[&a][0].clone()], via_file: false, out: None });
                }
            }
            _ if stale => {
                if files.len() > 1 {
                    merge_all(&mut rng, &mut ops, &mut files, newname("m"));
                }
                let mut cur = files.keys().next_back().unwrap().clone();
                let names = files[&cur].clone();
                let nn = names.len();
                let js: Vec<usize> = (1..=nn).filter(|j| exact_freq(*j, nn).is_some()).collect();
                let filt = SiteFilter::ALL[rng.below(4)];
                let o1 = WeedOpts { weed: if rng.chance(40) { Some(rng.pick(&weeds).clone()) } else { None }, reverse: false, min_count: *rng.pick(&js), ambig_missing: true, filter: filt, ambig_mask: false, no_gap_only: filt == SiteFilter::NoConst && rng.chance(30) };
                let out = if rng.chance(40) { Some(newname("w")) } else { None };
                if let Some(o2) = &out {
                    files.insert(o2.clone(), names.clone());
                    cur = o2.clone();
                }
                let src = files.keys().find(|f| out.as_ref() != Some(*f)).cloned().unwrap_or(cur.clone());
                ops.push(Op::Weed { file: if out.is_some() { src } else { cur.clone() }, o: o1, out });
                for _ in 0..rng.range(1, 3) {
                    let names = files[&cur].clone();
                    let nn = names.len();
                    match rng.below(5) {
                        0 | 1 => {
                            let js: Vec<usize> = (1..=nn).filter(|j| exact_freq(*j, nn).is_some()).collect();
                            let filt = if rng.chance(50) { SiteFilter::NoFilter } else { SiteFilter::ALL[rng.below(4)] };
                            // high thresholds separate "present" from "unambiguous" counts
                            let j = if rng.chance(60) { *js.last().unwrap() } else { *rng.pick(&js) };
                            let o = WeedOpts { weed: None, reverse: false, min_count: j, ambig_missing: rng.chance(25), filter: filt, ambig_mask: rng.chance(20), no_gap_only: false };
                            ops.push(Op::Weed { file: cur.clone(), o, out: None });
                        }
                        2 if nn >= 2 => {
                            let sub = rng.proper_subset(nn);
                            let mut del: Vec<String> = sub.iter().map(|i| names[*i].clone()).collect();
                            rng.shuffle(&mut del);
                            ops.push(Op::Delete { file: cur.clone(), names: del.clone(), via_file: rng.chance(30), out: None });
                            files.insert(cur.clone(), names.into_iter().filter(|x| !del.contains(x)).collect());
                        }
                        3 => ops.push(Op::Resave { file: cur.clone() }),
                        _ => {
                            let obs = gen_observers(&mut rng, nn, &names, &weeds, 2);
                            ops.push(Op::Canon { file: cur.clone(), observers: obs });
                        }
                    }
                }
                let names = files[&cur].clone();
                let mut obs = gen_observers(&mut rng, names.len(), &names, &weeds, 3);
                // align at the highest threshold: the point where stale counts matter most
                obs.push(Observer::Align(AlignJ { min_count: names.len(), pct: None, filter: SiteFilter::NoFilter, ambig_missing: false, ambig_mask: false, no_gap_only: false }));
                ops.push(Op::Canon { file: cur, observers: obs });
            }
            _ => {
                // C10 / C06 / C14: general histories
                let hist_len = match focus {
                    "C10" => rng.range(1, 8),
                    "C06" => rng.below(4),
                    _ => rng.below(3),
                };
                // swarm: a random subset of operation kinds is enabled per run
                let enabled: Vec<u8> = (0..6u8).filter(|_| rng.chance(65)).collect();
                // the file written last: histories mostly keep working on it, so that operations
                // see what the previous ones stored
                let mut last_written: Option<String> = None;
                let mut after_ambig_weed = false;
                for step in 0..hist_len {
                    let fl: Vec<String> = files.keys().cloned().collect();
                    let f = match &last_written {
                        Some(l) if rng.chance(65) => l.clone(),
                        _ => rng.pick(&fl).clone(),
                    };
                    let names = files[&f].clone();
                    let mut kind = if enabled.is_empty() { rng.below(6) as u8 } else { *rng.pick(&enabled) };
                    if after_ambig_weed && rng.chance(60) {
                        // right after a weed that counted only unambiguous bases: operations that
                        // depend on per-k-mer counts
                        kind = *rng.pick(&[1u8, 3, 3, 0]);
                    }
                    after_ambig_weed = false;
                    match kind {
                        0 if files.len() >= 2 => {
                            // merge two files without common samples
                            let others: Vec<String> = fl.iter().filter(|g| **g != f && files[*g].iter().all(|x| !names.contains(x))).cloned().collect();
                            if let Some(g) = others.first() {
                                let out = newname("m");
                                let mut ins = vec![f.clone(), g.clone()];
                                rng.shuffle(&mut ins);
                                let nm: Vec<String> = ins.iter().flat_map(|x| files[x].clone()).collect();
                                ops.push(Op::Merge { out: out.clone(), inputs: ins });
                                files.insert(out.clone(), nm);
                                last_written = Some(out);
                            }
                        }
                        1 if names.len() >= 2 => {
                            let sub = rng.proper_subset(names.len());
                            let mut del: Vec<String> = sub.iter().map(|i| names[*i].clone()).collect();
                            rng.shuffle(&mut del);
                            let out = if rng.chance(40) { Some(newname("d")) } else { None };
                            let target = out.clone().unwrap_or(f.clone());
                            ops.push(Op::Delete { file: f.clone(), names: del.clone(), via_file: rng.chance(30), out });
                            files.insert(target.clone(), names.into_iter().filter(|x| !del.contains(x)).collect());
                            last_written = Some(target);
                        }
                        2 | 3 => {
                            let filt = kind == 3 || rng.chance(50);
                            let o = gen_weedopts(&mut rng, names.len(), &weeds, filt);
                            let out = if rng.chance(40) { Some(newname("w")) } else { None };
                            if let Some(o2) = &out {
                                files.insert(o2.clone(), names.clone());
                            }
                            after_ambig_weed = o.ambig_missing;
                            last_written = Some(out.clone().unwrap_or(f.clone()));
                            ops.push(Op::Weed { file: f.clone(), o, out });
                        }
                        4 => ops.push(Op::Resave { file: f.clone() }),
                        _ => {
                            if focus == "C10" && step + 1 < hist_len {
                                let obs = gen_observers(&mut rng, names.len(), &names, &weeds, 2);
                                ops.push(Op::Canon { file: f.clone(), observers: obs });
                            }
                        }
                    }
                }
                let fl: Vec<String> = files.keys().cloned().collect();
                let f = match &last_written {
                    Some(l) if rng.chance(70) => l.clone(),
                    _ => rng.pick(&fl).clone(),
                };
                let names = files[&f].clone();
                let nn = names.len();
                match focus {
                    "C10" => {
                        let cnt = if tier == Tier::Quick { rng.range(3, 5) } else { rng.range(4, 8) };
                        let obs = gen_observers(&mut rng, nn, &names, &weeds, cnt);
                        ops.push(Op::Canon { file: f, observers: obs });
                    }
                    "C06" => {
                        let cnt = if tier == Tier::Quick { rng.range(4, 8) } else { rng.range(8, 16) };
                        for _ in 0..cnt {
                            let fpick = rng.pick(&fl).clone();
                            let a = gen_alignj(&mut rng, files[&fpick].len());
                            ops.push(Op::Align { file: fpick, a });
                        }
                    }
                    _ => {
                        for _ in 0..rng.range(2, 5) {
                            let fpick = rng.pick(&fl).clone();
                            let nn = files[&fpick].len();
                            if nn < 2 {
                                continue;
                            }
                            let pct = if rng.chance(35) { Some(*rng.pick(&PCTS)).filter(|p| pct_threshold(*p, nn).is_some()) } else { None };
                            ops.push(Op::Distance { file: fpick.clone(), min_count: if rng.chance(60) { rng.below(nn + 1) } else { 0 }, pct, allow_ambig: rng.chance(40), threads: rng.range(1, 8) });
                            if rng.chance(25) {
                                ops.push(Op::DistancePermuted { file: fpick, perm_seed: rng.next_u64() });
                            }
                        }
                    }
                }
            }
        }
        StoreCase { fastq, focus: focus.to_string(), samples, extra, ops, sim_seed: rng.next_u64() >> 1 }
    }
}

impl Workload for StoreWorkload {
    type Case = StoreCase;
    fn property(&self) -> &'static str {
        self.focus
    }
    fn name(&self) -> &'static str {
        "store"
    }
    fn rule(&self) -> String {
        let what = match self.focus {
            "C06" => "a history (build/merge/delete/weed/filter/re-save) producing one or more stored tables, then ska align with sampled (site filter, ambig-as-missing, ambig-mask, no-gap-only-sites, threshold 0..n) points compared with the model predicate as a column multiset",
            "C07" => "2..8 samples partitioned into 2..4 built files and a random merge tree (nested merges, any argument order), each merge compared with the table model and with a joint ska build of all source samples; plus k/strand-mismatch refusals that must leave the directory untouched",
            "C08" => "a built or merged file of 2..8 samples and 1..3 deletes (names on the command line or in a names file, in place or -o), each compared with the model and with ska build of the remaining samples; plus refusals (unknown name, all names, empty list) that must leave the file unchanged",
            "C10" => "a history of 1..8 operations over merge, delete, weed, reverse weed, weed with frequency/constant/ambiguity filters (+/- ambig-as-missing, ambig-mask, no-gap-only-sites) and re-save; after every operation the file must equal the table model; at the end and at intermediate states align/distance/map/nk/delete/weed must agree between the history's file and a freshly re-saved file with the same content",
            "C13" => "a file and weed sequence sets cut from the samples (overlapping, reverse complemented, with N, matching nothing/everything); weed and reverse weed compared with the model (S = k-mers ska build finds in the weed FASTA), partition and idempotence laws",
            _ => "stored tables (after short histories) and ska distance with thresholds 0..n, +/- --allow-ambiguous, threads 1..8; on tables without ambiguity codes the printed values must equal the model definition; permuted builds must give the same pairs",
        };
        format!("one run = {what}. Every operation is one simulated process with its own hash seed, core count and schedule policy. Non-trivial = at least one operation relevant to {} was executed and checked (the case was not cut short as outside the documented domain); distinct = distinct hash of (inputs, operation list)", self.focus)
    }
    fn assumptions(&self) -> Vec<String> {
        vec![
            "which split k-mers a FASTA contains is taken from the real builder (C01 is not claimed): the model adopts the content of every freshly built file".into(),
            "the inspector reads files with MergeSkaArray::<u128>::load (then ::<u64>) and iter()".into(),
            "parameters are generated only where the documentation decides the outcome (exact thresholds written as plain decimals; --filter-ambig-as-missing with a threshold >= 1, and on its own with threshold 0, where the frequency filter is off and nothing may be removed; no-gap-only-sites only with no-const); each focus judges only the operations of its own property (DESIGN.md 15)".into(),
        ]
    }
    fn generate(&self, seed: u64, _index: u64, tier: Tier) -> StoreCase {
        self.gen(seed, tier)
    }
    fn execute(&self, c: &StoreCase, ctx: &mut Ctx) -> Result<Outcome, HarnessError> {
        for s in &c.samples {
            ctx.dir.write(&s.file(), &s.bytes());
        }
        for (n, d) in &c.extra {
            ctx.dir.write(n, d.as_bytes());
        }
        for (i, (f, r)) in &c.fastq {
            if let Some(smp) = c.samples.get(*i) {
                ctx.dir.write(&format!("{}_1.fastq", smp.name), f.as_bytes());
                ctx.dir.write(&format!("{}_2.fastq", smp.name), r.as_bytes());
            }
        }
        let _ = std::fs::create_dir_all(ctx.dir.p("o"));
        let mut ex = Exec { dir: &ctx.dir, c, log: vec![format!("store case focus={} samples={} ops={}", c.focus, c.samples.len(), c.ops.len())], nproc: 0, store: BTreeMap::new(), weed_sets: BTreeMap::new() };
        let mut out = Outcome::default();
        let mut relevant = 0;
        // reach measure for C10: which writer produced the file an operation works on (probes only,
        // nothing here draws from the PRNG or enters the event log)
        let mut lineage: BTreeMap<String, Vec<&'static str>> = BTreeMap::new();
        for (i, op) in c.ops.iter().enumerate() {
            ex.log.push(format!("op {i}: {}", serde_json::to_string(op).unwrap_or_default()));
            match ex.step(op) {
                Ok(()) => {
                    if c.focus == "C10" {
                        history_reach(&mut lineage, op);
                    }
                    let rel = match (c.focus.as_str(), op) {
                        ("C07", Op::Merge { .. }) | ("C08", Op::Delete { .. }) | ("C13", Op::Weed { .. }) | ("C13", Op::WeedLaws { .. }) | ("C13", Op::WeedOddName { .. }) | ("C13", Op::WeedSpelling { .. }) | ("C06", Op::Align { .. }) | ("C14", Op::Distance { .. }) | ("C14", Op::DistancePermuted { .. }) | ("C10", Op::Canon { .. }) => true,
                        ("C10", Op::Build { .. }) => false,
                        ("C10", _) => true,
                        _ => false,
                    };
                    if rel {
                        relevant += 1;
                    }
                }
                Err(Stop::Invalid(why)) => {
                    ex.log.push(format!("case cut short at op {i}: {why}"));
                    probe("store_case_cut_short");
                    break;
                }
                Err(Stop::Violation(sig, msg)) => {
                    // a case of focus X decides X: a preparatory operation of another property that
                    // disagrees with the model ends the case (C10, whose statement covers every
                    // operation of a history, owns them all and runs the same histories)
                    let owned = match c.focus.as_str() {
                        "C06" => sig.starts_with("align:"),
                        "C14" => sig.starts_with("distance:"),
                        "C07" => sig.starts_with("merge:"),
                        "C08" => sig.starts_with("delete:"),
                        "C13" => sig.starts_with("weed:"),
                        _ => true,
                    };
                    if !owned {
                        ex.log.push(format!("case cut short at op {i}: an operation outside {} disagrees with the model ({sig}: {msg})", c.focus));
                        probe(&format!("foreign_operation_disagrees_{}", sig.split(':').next().unwrap_or("x")));
                        break;
                    }
                    out.violation = Some((sig, format!("op {i} {}: {msg}", serde_json::to_string(op).unwrap_or_default())));
                    break;
                }
                Err(Stop::Harness(e)) => return Err(e),
            }
        }
        out.nontrivial = relevant > 0;
        out.log = ex.log;
        Ok(out)
    }
    fn shrink(&self, c: &StoreCase) -> Vec<StoreCase> {
        let mut v = vec![];
        // drop operations, last first (ops whose inputs vanish make the case invalid = rejected)
        for i in (0..c.ops.len()).rev() {
            let mut d = c.clone();
            d.ops.remove(i);
            v.push(d);
        }
        // keep a single observer in Canon ops
        for (i, op) in c.ops.iter().enumerate() {
            if let Op::Canon { file, observers } = op {
                if observers.len() > 1 {
                    for o in observers {
                        let mut d = c.clone();
                        d.ops[i] = Op::Canon { file: file.clone(), observers: vec![o.clone()] };
                        v.push(d);
                    }
                }
            }
        }
        // drop a sample everywhere
        if c.samples.len() > 1 {
            for si in 0..c.samples.len() {
                let name = c.samples[si].name.clone();
                let mut d = c.clone();
                let mut ok = true;
                for op in d.ops.iter_mut() {
                    match op {
                        Op::Build { samples, .. } => {
                            samples.retain(|x| *x != si);
                            if samples.is_empty() {
                                ok = false;
                            }
                        }
                        Op::Delete { names, .. } => names.retain(|x| *x != name),
                        _ => {}
                    }
                }
                if ok {
                    v.push(d);
                }
            }
        }
        // shorter sequences
        for front in [true, false] {
            let mut d = c.clone();
            let mut changed = false;
            for s in d.samples.iter_mut() {
                for r in s.records.iter_mut() {
                    if r.1.len() > 140 {
                        let h = r.1.len() / 2;
                        r.1 = if front { r.1[..h].to_vec() } else { r.1[h..].to_vec() };
                        changed = true;
                    }
                }
            }
            if changed {
                v.push(d);
            }
        }
        for si in 0..c.samples.len() {
            if c.samples[si].records.len() > 1 {
                let mut d = c.clone();
                d.samples[si].records.pop();
                v.push(d);
            }
        }
        // simpler flags
        for (i, op) in c.ops.iter().enumerate() {
            if let Op::Weed { file, o, out } = op {
                let mut alts = vec![];
                if o.weed.is_some() && (o.min_count > 0 || o.filter != SiteFilter::NoFilter || o.ambig_mask) {
                    let mut x = o.clone();
                    x.weed = None;
                    alts.push(x);
                }
                if o.ambig_mask {
                    let mut x = o.clone();
                    x.ambig_mask = false;
                    alts.push(x);
                }
                if o.filter != SiteFilter::NoFilter {
                    let mut x = o.clone();
                    x.filter = SiteFilter::NoFilter;
                    x.no_gap_only = false;
                    alts.push(x);
                }
                if o.reverse {
                    let mut x = o.clone();
                    x.reverse = false;
                    alts.push(x);
                }
                for x in alts {
                    let mut d = c.clone();
                    d.ops[i] = Op::Weed { file: file.clone(), o: x, out: out.clone() };
                    v.push(d);
                }
            }
        }
        if c.sim_seed > 9 {
            let mut d = c.clone();
            d.sim_seed = 1;
            v.push(d);
        }
        v
    }
    fn case_key(&self, c: &StoreCase) -> u64 {
        let mut d = c.clone();
        d.sim_seed = 0;
        crate::util::fnv_str(&serde_json::to_string(&d).unwrap_or_default())
    }
    fn sample_view(&self, c: &StoreCase) -> Value {
        json!({
            "focus": c.focus,
            "samples": c.samples.iter().map(|s| json!({"name": s.name, "records": s.records.len(), "bases": s.total_len()})).collect::<Vec<_>>(),
            "extra_files": c.extra.keys().collect::<Vec<_>>(),
            "ops": c.ops,
        })
    }
}

#[allow(dead_code)]
fn _unused(_: AlignOpts) {}
