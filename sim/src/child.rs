//! One simulated process: the real `ska::main()` (or a small `@program` using ska's public API)
//! inside a single shuttle execution, with every source of nondeterminism behind a seam that is
//! fed from `SKASIM_SEED`:
//!   * scheduler seam  - rayon-core(sim) worker tasks, scheduled by `SimScheduler` below;
//!   * entropy seam    - the `getrandom` symbol and ahash's random source;
//!   * crash seam      - `RLIMIT_FSIZE` (the kernel kills the writer at byte n);
//!   * hook seam       - `ska::verif_hooks::sched_point` (a per-process subset of sites is live).
//! Exit status: 0 = main returned, 101 = main panicked (a refusal), 1 = ska called exit(1),
//! 3 = the simulation itself failed (deadlock), 4 = the harness step cap was reached (a harness
//! error, exit 2 of the check), signal = crash.

use std::sync::atomic::{AtomicBool, AtomicU32, AtomicU64, Ordering};
use std::sync::Mutex;

use shuttle::scheduler::{Schedule, Scheduler, Task, TaskId};

// ------------------------------------------------------------------ entropy seam
pub static SIM_ENTROPY: AtomicBool = AtomicBool::new(false);
static ENTROPY: AtomicU64 = AtomicU64::new(0x9E3779B97F4A7C15);
static GETRANDOM_CALLS: AtomicU64 = AtomicU64::new(0);

pub fn splitmix(x: &AtomicU64) -> u64 {
    let mut z = x
        .fetch_add(0x9E3779B97F4A7C15, Ordering::Relaxed)
        .wrapping_add(0x9E3779B97F4A7C15);
    z = (z ^ (z >> 30)).wrapping_mul(0xBF58476D1CE4E5B9);
    z = (z ^ (z >> 27)).wrapping_mul(0x94D049BB133111EB);
    z ^ (z >> 31)
}

/// Interposed libc symbol. std's `RandomState` looks `getrandom` up weakly "to allow
/// interposition"; the getrandom crate (ahash's fixed seeds) resolves the same symbol.
/// In the parent (harness) process it forwards to the real system call.
#[no_mangle]
pub unsafe extern "C" fn getrandom(
    buf: *mut libc::c_void,
    len: libc::size_t,
    flags: libc::c_uint,
) -> libc::ssize_t {
    if !SIM_ENTROPY.load(Ordering::Relaxed) {
        return libc::syscall(libc::SYS_getrandom, buf, len, flags) as libc::ssize_t;
    }
    GETRANDOM_CALLS.fetch_add(1, Ordering::Relaxed);
    let b = std::slice::from_raw_parts_mut(buf as *mut u8, len);
    for chunk in b.chunks_mut(8) {
        let v = splitmix(&ENTROPY).to_le_bytes();
        chunk.copy_from_slice(&v[..chunk.len()]);
    }
    len as libc::ssize_t
}

struct SimSource;
impl ahash::random_state::RandomSource for SimSource {
    fn gen_hasher_seed(&self) -> usize {
        splitmix(&ENTROPY) as usize
    }
}

// ------------------------------------------------------------------ hook seam
pub const N_SITES: usize = 13;
/// pseudo-site for "before every DashMap operation" (dashmap shim)
const DASHMAP_SITE: u32 = 12;
static HOOK_MASK: AtomicU32 = AtomicU32::new(0);
#[allow(clippy::declare_interior_mutable_const)]
const Z: AtomicU64 = AtomicU64::new(0);
static HOOK_HITS: [AtomicU64; N_SITES] = [Z; N_SITES];
/// bitmask of worker indices seen per site
static HOOK_WORKERS: [AtomicU64; N_SITES] = [Z; N_SITES];

fn hook(site: u32) {
    let s = site as usize;
    if s >= N_SITES {
        return;
    }
    if let Some(i) = rayon_core::current_thread_index() {
        HOOK_WORKERS[s].fetch_or(1u64 << (i % 64), Ordering::Relaxed);
    }
    if HOOK_MASK.load(Ordering::Relaxed) & (1 << site) != 0 {
        HOOK_HITS[s].fetch_add(1, Ordering::Relaxed);
        shuttle::thread::yield_now();
    }
}

static DM_STATE: AtomicU64 = AtomicU64::new(0);
/// before every DashMap operation: a switch point at a quarter of them (chosen by a stream
/// derived from the process seed), when the pseudo-site is enabled for this process
fn dashmap_hook() {
    if HOOK_MASK.load(Ordering::Relaxed) & (1 << DASHMAP_SITE) != 0 && splitmix(&DM_STATE) % 4 == 0 {
        hook(DASHMAP_SITE);
    }
}

// ------------------------------------------------------------------ scheduler seam
#[derive(Clone, Debug)]
pub enum Policy {
    Uniform,
    Sticky(u64),
    Pct(usize),
    RoundRobin,
}
impl Policy {
    pub fn parse(s: &str) -> Policy {
        let mut it = s.split(':');
        match (it.next().unwrap_or(""), it.next().and_then(|x| x.parse::<u64>().ok())) {
            ("sticky", Some(p)) => Policy::Sticky(p.min(99)),
            ("pct", Some(d)) => Policy::Pct(d as usize),
            ("rr", _) => Policy::RoundRobin,
            _ => Policy::Uniform,
        }
    }
}

static STEPS: AtomicU64 = AtomicU64::new(0);
static SWITCHES: AtomicU64 = AtomicU64::new(0);
static MAX_RUNNABLE: AtomicU64 = AtomicU64::new(0);
static MULTI_STEPS: AtomicU64 = AtomicU64::new(0);
static RAND_DRAWS: AtomicU64 = AtomicU64::new(0);
static REPLAY_DIVERGED: AtomicU64 = AtomicU64::new(0);
static TRACE_HASH: AtomicU64 = AtomicU64::new(0xcbf29ce484222325);
static RECORD: Mutex<Vec<u64>> = Mutex::new(Vec::new());

fn trace(v: u64) {
    let h = TRACE_HASH.load(Ordering::Relaxed);
    TRACE_HASH.store((h ^ v).wrapping_mul(0x100000001b3), Ordering::Relaxed);
}

pub struct SimScheduler {
    state: AtomicU64,
    policy: Policy,
    started: bool,
    record: bool,
    replay: Option<Vec<u64>>,
    replay_pos: usize,
    // PCT
    prio: Vec<u64>,
    change_points: Vec<u64>,
    low: u64,
}
impl SimScheduler {
    pub fn new(seed: u64, policy: Policy, record: bool, replay: Option<Vec<u64>>) -> Self {
        let state = AtomicU64::new(seed ^ 0x5ca1ab1e0ddba11);
        let mut change_points = Vec::new();
        if let Policy::Pct(d) = policy {
            for _ in 0..d {
                change_points.push(splitmix(&state) % 400);
            }
        }
        Self {
            state,
            policy,
            started: false,
            record,
            replay,
            replay_pos: 0,
            prio: Vec::new(),
            change_points,
            low: 1_000_000,
        }
    }
    fn replay_next(&mut self) -> Option<u64> {
        if let Some(r) = &self.replay {
            let v = r.get(self.replay_pos).copied();
            self.replay_pos += 1;
            // exhausted list: Some(u64::MAX) = "take the default"
            Some(v.unwrap_or(u64::MAX))
        } else {
            None
        }
    }
}
impl Scheduler for SimScheduler {
    fn new_execution(&mut self) -> Option<Schedule> {
        if self.started {
            None
        } else {
            self.started = true;
            Some(Schedule::new(0))
        }
    }
    fn next_task(
        &mut self,
        runnable: &[&Task],
        current: Option<TaskId>,
        is_yielding: bool,
    ) -> Option<TaskId> {
        let step = STEPS.fetch_add(1, Ordering::Relaxed);
        let mut ids: Vec<usize> = runnable.iter().map(|t| t.id().into()).collect();
        ids.sort_unstable();
        if ids.len() as u64 > MAX_RUNNABLE.load(Ordering::Relaxed) {
            MAX_RUNNABLE.store(ids.len() as u64, Ordering::Relaxed);
        }
        if ids.len() > 1 {
            MULTI_STEPS.fetch_add(1, Ordering::Relaxed);
        }
        let cur: Option<usize> = current.map(|c| c.into());
        let choice: usize = if let Some(v) = self.replay_next() {
            if v != u64::MAX && ids.contains(&(v as usize)) {
                v as usize
            } else {
                if v != u64::MAX {
                    REPLAY_DIVERGED.fetch_add(1, Ordering::Relaxed);
                }
                ids[0]
            }
        } else {
            match self.policy {
                Policy::Uniform => ids[(splitmix(&self.state) >> 8) as usize % ids.len()],
                Policy::Sticky(p) => {
                    let r = splitmix(&self.state);
                    match cur {
                        Some(c) if ids.contains(&c) && (r % 100) < p => c,
                        _ => ids[(r >> 8) as usize % ids.len()],
                    }
                }
                Policy::RoundRobin => match cur {
                    Some(c) => *ids.iter().find(|&&i| i > c).unwrap_or(&ids[0]),
                    None => ids[0],
                },
                Policy::Pct(_) => {
                    let maxid = *ids.last().unwrap();
                    while self.prio.len() <= maxid {
                        let p = 2_000_000 + (splitmix(&self.state) % 1_000_000);
                        self.prio.push(p);
                    }
                    let at_change = self.change_points.contains(&step)
                        || (is_yielding && splitmix(&self.state) % 4 == 0);
                    if at_change {
                        if let Some(c) = cur {
                            if c < self.prio.len() {
                                self.low -= 1;
                                self.prio[c] = self.low;
                            }
                        }
                    }
                    *ids.iter().max_by_key(|&&i| self.prio[i]).unwrap()
                }
            }
        };
        if Some(choice) != cur {
            SWITCHES.fetch_add(1, Ordering::Relaxed);
        }
        trace(choice as u64);
        if self.record {
            RECORD.lock().unwrap().push(choice as u64);
        }
        Some(TaskId::from(choice))
    }
    fn next_u64(&mut self) -> u64 {
        RAND_DRAWS.fetch_add(1, Ordering::Relaxed);
        let v = match self.replay_next() {
            Some(u64::MAX) => 0,
            Some(v) => v,
            None => splitmix(&self.state),
        };
        trace(v | 1 << 63);
        if self.record {
            RECORD.lock().unwrap().push(v);
        }
        v
    }
}

// ------------------------------------------------------------------ the simulated process
fn env_u64(k: &str, d: u64) -> u64 {
    std::env::var(k).ok().and_then(|s| s.parse().ok()).unwrap_or(d)
}

pub fn child_main() -> ! {
    let seed = env_u64("SKASIM_SEED", 0);
    let cores = env_u64("SKASIM_CORES", 4) as usize;
    let policy = Policy::parse(&std::env::var("SKASIM_POLICY").unwrap_or_default());
    let hooks = env_u64("SKASIM_HOOKS", 0) as u32;
    let max_steps = env_u64("SKASIM_MAXSTEPS", 5_000_000) as usize;
    let record_path = std::env::var("SKASIM_RECORD").ok();
    let replay: Option<Vec<u64>> = std::env::var("SKASIM_REPLAY").ok().map(|p| {
        std::fs::read_to_string(&p)
            .unwrap_or_default()
            .split_whitespace()
            .filter_map(|t| t.parse().ok())
            .collect()
    });

    // crash seam: the kernel short-writes and kills the writer at byte n of any regular file
    unsafe {
        let zero = libc::rlimit { rlim_cur: 0, rlim_max: 0 };
        libc::setrlimit(libc::RLIMIT_CORE, &zero);
        // wall-clock backstop expressed as CPU time (this process is one CPU-bound OS thread)
        let cpu = env_u64("SKASIM_CPU", 300);
        let l = libc::rlimit { rlim_cur: cpu, rlim_max: cpu };
        libc::setrlimit(libc::RLIMIT_CPU, &l);
        if let Ok(s) = std::env::var("SKASIM_FSIZE") {
            if let Ok(n) = s.parse::<u64>() {
                let l = libc::rlimit { rlim_cur: n, rlim_max: n };
                libc::setrlimit(libc::RLIMIT_FSIZE, &l);
                // "write error" flavour (disk full): the write that would pass byte n fails with
                // EFBIG instead of killing the process, so ska's own error path runs
                if std::env::var_os("SKASIM_FSIZE_ERROR").is_some() {
                    libc::signal(libc::SIGXFSZ, libc::SIG_IGN);
                }
            }
        }
    }

    // entropy seam (before anything creates a hash map)
    ENTROPY.store(
        seed.wrapping_mul(0xD1342543DE82EF95).wrapping_add(0x2545F4914F6CDD1D),
        Ordering::Relaxed,
    );
    SIM_ENTROPY.store(true, Ordering::Relaxed);
    ahash::random_state::set_random_source(SimSource).ok();

    // scheduler + hook seams
    rayon_core::sim::activate();
    rayon_core::sim::CORES.store(cores.max(1), Ordering::Relaxed);
    HOOK_MASK.store(hooks, Ordering::Relaxed);
    DM_STATE.store(seed ^ 0xDA54_4A90, Ordering::Relaxed);
    ska::verif_hooks::install_sched_point(hook);
    dashmap::sim::install(dashmap_hook);

    let mut cfg = shuttle::Config::new();
    cfg.stack_size = 1 << 23;
    cfg.max_steps = shuttle::MaxSteps::FailAfter(max_steps);
    cfg.failure_persistence = shuttle::FailurePersistence::None;
    cfg.silence_warnings = true;
    let sched = SimScheduler::new(seed, policy, record_path.is_some(), replay);
    let runner = shuttle::Runner::new(sched, cfg);
    let code = std::sync::Arc::new(std::sync::atomic::AtomicI32::new(0));
    let c2 = code.clone();
    let args: Vec<String> = std::env::args().collect();
    let outer = std::panic::catch_unwind(std::panic::AssertUnwindSafe(|| {
        runner.run(move || {
            let args = args.clone();
            let r = std::panic::catch_unwind(move || {
                if args.len() > 1 && args[1].starts_with('@') {
                    crate::simprog::run(&args[1..]);
                } else {
                    ska::main();
                }
            });
            rayon_core::sim::shutdown();
            if r.is_err() {
                c2.store(101, Ordering::SeqCst);
            }
        });
    }));
    use std::io::Write;
    let _ = std::io::stdout().flush();
    if let Some(p) = record_path {
        let rec = RECORD.lock().unwrap();
        let s: Vec<String> = rec.iter().map(|v| v.to_string()).collect();
        let _ = std::fs::write(p, s.join("\n"));
    }
    let mut exit = code.load(Ordering::SeqCst);
    if outer.is_err() {
        // the step cap is a limit of this harness, not a liveness failure of the program: its own status
        if STEPS.load(Ordering::Relaxed) as usize + 1 >= max_steps {
            eprintln!("SKASIM-FAIL step cap of {max_steps} scheduling steps reached");
            exit = 4;
        } else {
            eprintln!("SKASIM-FAIL simulation aborted (deadlock or panic outside main)");
            exit = 3;
        }
    }
    let hits: Vec<u64> = HOOK_HITS.iter().map(|a| a.load(Ordering::Relaxed)).collect();
    let workers: Vec<u32> = HOOK_WORKERS
        .iter()
        .map(|a| a.load(Ordering::Relaxed).count_ones())
        .collect();
    use rayon_core::sim as rs;
    eprintln!(
        "SKASIM-STATS {{\"steps\":{},\"switches\":{},\"multi_steps\":{},\"max_runnable\":{},\"trace\":\"{:016x}\",\"rand_draws\":{},\"getrandom_calls\":{},\"replay_diverged\":{},\"joins\":{},\"steals\":{},\"inline_b\":{},\"injected\":{},\"nested\":{},\"pools\":{},\"global_implicit\":{},\"global_configured\":{},\"build_global_refused\":{},\"hook_hits\":{:?},\"hook_workers\":{:?}}}",
        STEPS.load(Ordering::Relaxed),
        SWITCHES.load(Ordering::Relaxed),
        MULTI_STEPS.load(Ordering::Relaxed),
        MAX_RUNNABLE.load(Ordering::Relaxed),
        TRACE_HASH.load(Ordering::Relaxed),
        RAND_DRAWS.load(Ordering::Relaxed),
        GETRANDOM_CALLS.load(Ordering::Relaxed),
        REPLAY_DIVERGED.load(Ordering::Relaxed),
        rs::JOINS.load(Ordering::Relaxed),
        rs::STEALS.load(Ordering::Relaxed),
        rs::INLINE_B.load(Ordering::Relaxed),
        rs::INJECTED.load(Ordering::Relaxed),
        rs::NESTED_WAIT_JOBS.load(Ordering::Relaxed),
        rs::POOLS_BUILT.load(Ordering::Relaxed),
        rs::GLOBAL_IMPLICIT.load(Ordering::Relaxed),
        rs::GLOBAL_CONFIGURED.load(Ordering::Relaxed),
        rs::BUILD_GLOBAL_REFUSED.load(Ordering::Relaxed),
        hits,
        workers
    );
    std::process::exit(exit);
}
