//! Seeded PRNG, hashing, small helpers. Nothing here reads a clock or OS entropy.

#[derive(Clone, Debug)]
pub struct Rng {
    s: [u64; 4],
}

pub fn mix(a: u64, b: u64) -> u64 {
    let mut z = a ^ b.wrapping_mul(0x9E3779B97F4A7C15) ^ 0xD6E8FEB86659FD93;
    z = (z ^ (z >> 32)).wrapping_mul(0xD6E8FEB86659FD93);
    z = (z ^ (z >> 32)).wrapping_mul(0xD6E8FEB86659FD93);
    z ^ (z >> 32)
}

impl Rng {
    pub fn new(seed: u64) -> Self {
        let mut x = seed;
        let mut next = || {
            x = x.wrapping_add(0x9E3779B97F4A7C15);
            let mut z = x;
            z = (z ^ (z >> 30)).wrapping_mul(0xBF58476D1CE4E5B9);
            z = (z ^ (z >> 27)).wrapping_mul(0x94D049BB133111EB);
            z ^ (z >> 31)
        };
        Rng {
            s: [next(), next(), next(), next()],
        }
    }
    pub fn next_u64(&mut self) -> u64 {
        let r = self.s[1].wrapping_mul(5).rotate_left(7).wrapping_mul(9);
        let t = self.s[1] << 17;
        self.s[2] ^= self.s[0];
        self.s[3] ^= self.s[1];
        self.s[1] ^= self.s[2];
        self.s[0] ^= self.s[3];
        self.s[2] ^= t;
        self.s[3] = self.s[3].rotate_left(45);
        r
    }
    /// uniform in 0..n (n > 0)
    pub fn below(&mut self, n: usize) -> usize {
        (self.next_u64() % n as u64) as usize
    }
    /// uniform in lo..=hi
    pub fn range(&mut self, lo: usize, hi: usize) -> usize {
        lo + self.below(hi - lo + 1)
    }
    pub fn chance(&mut self, percent: u64) -> bool {
        self.next_u64() % 100 < percent
    }
    pub fn pick<'a, T>(&mut self, v: &'a [T]) -> &'a T {
        &v[self.below(v.len())]
    }
    pub fn shuffle<T>(&mut self, v: &mut [T]) {
        for i in (1..v.len()).rev() {
            let j = self.below(i + 1);
            v.swap(i, j);
        }
    }
    pub fn base(&mut self) -> u8 {
        b"ACGT"[self.below(4)]
    }
    pub fn dna(&mut self, n: usize) -> Vec<u8> {
        (0..n).map(|_| self.base()).collect()
    }
    /// a random non-empty proper subset of 0..n (n >= 2), sorted
    pub fn proper_subset(&mut self, n: usize) -> Vec<usize> {
        loop {
            let v: Vec<usize> = (0..n).filter(|_| self.chance(50)).collect();
            if !v.is_empty() && v.len() < n {
                return v;
            }
        }
    }
}

pub fn fnv(data: &[u8]) -> u64 {
    let mut h: u64 = 0xcbf29ce484222325;
    for b in data {
        h = (h ^ *b as u64).wrapping_mul(0x100000001b3);
    }
    h
}
pub fn fnv_str(s: &str) -> u64 {
    fnv(s.as_bytes())
}

pub fn revcomp(s: &[u8]) -> Vec<u8> {
    s.iter()
        .rev()
        .map(|b| match b {
            b'A' => b'T',
            b'C' => b'G',
            b'G' => b'C',
            b'T' => b'A',
            b'a' => b't',
            b'c' => b'g',
            b'g' => b'c',
            b't' => b'a',
            x => *x,
        })
        .collect()
}

pub fn hex(data: &[u8]) -> String {
    let mut s = String::with_capacity(data.len() * 2);
    for b in data {
        s.push_str(&format!("{b:02x}"));
    }
    s
}
pub fn unhex(s: &str) -> Vec<u8> {
    (0..s.len() / 2)
        .map(|i| u8::from_str_radix(&s[2 * i..2 * i + 2], 16).unwrap_or(0))
        .collect()
}

/// text if printable ASCII, else hex with a prefix; used to embed files in replay files
pub fn embed(data: &[u8]) -> String {
    if data.iter().all(|b| *b == b'\n' || *b == b'\t' || (32..127).contains(b)) {
        format!("t:{}", String::from_utf8_lossy(data))
    } else {
        format!("x:{}", hex(data))
    }
}
pub fn unembed(s: &str) -> Vec<u8> {
    if let Some(t) = s.strip_prefix("t:") {
        t.as_bytes().to_vec()
    } else if let Some(x) = s.strip_prefix("x:") {
        unhex(x)
    } else {
        s.as_bytes().to_vec()
    }
}

pub fn wrap_fasta(name: &str, seq: &[u8], width: usize) -> String {
    let mut s = format!(">{name}\n");
    if width == 0 {
        s.push_str(&String::from_utf8_lossy(seq));
        s.push('\n');
    } else {
        for c in seq.chunks(width) {
            s.push_str(&String::from_utf8_lossy(c));
            s.push('\n');
        }
    }
    s
}
