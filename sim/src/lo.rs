//! `lo` workload (C17, C18): planted truth. Genomes are built constructively so that they lie
//! inside the properties' domain (all (k-1)-mers unique on both strands, variants isolated),
//! `ska build` + `ska lo` run as simulated processes under varied threads / cores / hash seeds /
//! schedule policies / hook subsets, and the calls are compared with what was planted. Truth for
//! indel records is decided by string search in the generated samples - no model of the algorithm.

use std::collections::{BTreeMap, BTreeSet};

use serde::{Deserialize, Serialize};
use serde_json::{json, Value};

use crate::framework::{Ctx, Outcome, Tier, Workload};
use crate::gen::{gen_samples, GenomeOpts, Sample};
use crate::model::{columns, parse_fasta};
use crate::procsim::{probe, probe_n, run_proc, HarnessError};
use crate::sched::Sim;
use crate::util::{revcomp, Rng};

#[derive(Clone, Debug, Serialize, Deserialize, PartialEq)]
pub struct Indel {
    /// ancestor coordinate: the inserted string goes before this base / the deletion starts here
    pub pos: usize,
    /// inserted string (insertion) or empty (deletion of `del` bases)
    pub ins: String,
    pub del: usize,
    /// samples carrying the derived state
    pub carriers: Vec<usize>,
}

#[derive(Clone, Debug, Serialize, Deserialize, PartialEq)]
pub struct LoCase {
    /// "snp" | "snp-ref" | "indel" | "wellformed"
    pub kind: String,
    pub k: usize,
    pub ancestor: String,
    pub samples: Vec<Sample>,
    /// planted SNP sites: ancestor coordinate -> base per sample
    pub sites: BTreeMap<usize, String>,
    pub indels: Vec<Indel>,
    /// reference = ancestor (false) or its reverse complement (true)
    pub ref_rc: bool,
    pub missing: String,
    pub base: Sim,
    pub variants: Vec<(usize, Sim)>,
    /// ancestor position of the planted indel (or SNP site) one of whose junction k-mers has a flank
    /// twin elsewhere in the genome
    #[serde(default, skip_serializing_if = "Option::is_none")]
    pub twin_of: Option<usize>,
}

pub struct LoWorkload {
    pub property: &'static str,
}

fn enc(b: u8) -> u64 {
    match b {
        b'A' => 0,
        b'C' => 1,
        b'G' => 2,
        _ => 3,
    }
}
fn canon(kmer: &[u8]) -> (u64, bool, bool) {
    let mut f = 0u64;
    let mut r = 0u64;
    let n = kmer.len();
    for (i, b) in kmer.iter().enumerate() {
        f = (f << 2) | enc(*b);
        r |= (3 - enc(*b)) << (2 * i);
    }
    let _ = n;
    (f.min(r), f <= r, f == r)
}

/// a sequence whose m-mers (m <= 32) are unique on both strands and never self-complementary:
/// greedy walk with backtracking over unused m-mers
pub fn unique_genome(rng: &mut Rng, m: usize, len: usize) -> Option<Vec<u8>> {
    let mut seq: Vec<u8> = rng.dna(m - 1);
    let mut used: BTreeSet<u64> = BTreeSet::new();
    // tried[i] = bases already tried at position i
    let mut tried: Vec<Vec<u8>> = vec![vec![]; len];
    let mut steps = 0;
    while seq.len() < len {
        steps += 1;
        if steps > 200 * len {
            return None;
        }
        let pos = seq.len();
        let mut order = *b"ACGT";
        rng.shuffle(&mut order);
        let mut placed = false;
        for b in order {
            if tried[pos].contains(&b) {
                continue;
            }
            tried[pos].push(b);
            seq.push(b);
            let (c, _, pal) = canon(&seq[seq.len() - m..]);
            if !pal && !used.contains(&c) {
                used.insert(c);
                placed = true;
                break;
            }
            seq.pop();
        }
        if !placed {
            // backtrack one base
            tried[pos].clear();
            if seq.len() < m {
                return None;
            }
            let (c, _, _) = canon(&seq[seq.len() - m..]);
            used.remove(&c);
            seq.pop();
        }
    }
    Some(seq)
}

/// every sample's m-mers unique on both strands, and an m-mer shared between samples sits at
/// the same ancestor coordinate in the same orientation. `labels[s][i]` = ancestor label of base i.
fn in_domain(samples: &[Vec<u8>], labels: &[Vec<(usize, usize)>], m: usize, check_labels: bool) -> bool {
    let mut global: BTreeMap<u64, ((usize, usize), bool)> = BTreeMap::new();
    for (s, seq) in samples.iter().enumerate() {
        let mut own: BTreeSet<u64> = BTreeSet::new();
        if seq.len() < m {
            return false;
        }
        for i in 0..=seq.len() - m {
            let (c, fwd, pal) = canon(&seq[i..i + m]);
            if pal || !own.insert(c) {
                return false;
            }
            let lab = (labels[s][i], fwd);
            match global.get(&c) {
                Some(l) if *l != lab && check_labels => return false,
                // indel sets: the same (k-1)-mer may start at slightly different labels (an event
                // whose placement is ambiguous), but not at different loci or on different strands -
                // that would be a repeat across the genome set
                Some(l) if *l != lab && (l.1 != lab.1 || (l.0).0.abs_diff((lab.0).0) > 12) => return false,
                Some(_) => {}
                None => {
                    global.insert(c, lab);
                }
            }
        }
    }
    true
}

/// low-complexity stretch in seq[lo..hi]: a homopolymer run of >= 5, or a period-2/3/4 tandem repeat
/// covering >= 6/8/10 bases
fn low_complexity(seq: &[u8], lo: usize, hi: usize) -> bool {
    let hi = hi.min(seq.len());
    for (p, need) in [(1usize, 5usize), (2, 6), (3, 8), (4, 10)] {
        let mut run = 0;
        for i in lo + p..hi {
            if seq[i] == seq[i - p] {
                run += 1;
                if run + p >= need && (p == 1 || seq[i - p + 1..=i].iter().any(|b| *b != seq[i])) {
                    return true;
                }
            } else {
                run = 0;
            }
        }
    }
    false
}

fn other(rng: &mut Rng, not: &[u8]) -> u8 {
    loop {
        let b = rng.base();
        if !not.contains(&b) {
            return b;
        }
    }
}

fn comp(b: u8) -> u8 {
    match b {
        b'A' => b'T',
        b'T' => b'A',
        b'C' => b'G',
        b'G' => b'C',
        x => x,
    }
}

impl LoWorkload {
    fn gen_variants(rng: &mut Rng, n: usize, max_threads: usize) -> Vec<(usize, Sim)> {
        (0..n).map(|i| (if i == 0 { 1 } else { rng.range(1, max_threads) }, Sim::varied(rng))).collect()
    }

    fn gen_snp(&self, rng: &mut Rng, with_ref: bool, tier: Tier) -> Option<LoCase> {
        let k = if with_ref { *rng.pick(&[15usize, 17, 19, 21, 25, 31, 33]) } else { *rng.pick(&[7usize, 9, 11, 13, 15, 17, 19, 21, 23, 25, 27, 29, 31, 33]) };
        let m = k - 1;
        let nsites_max = if k <= 9 { 3 } else { 6 };
        // a tenth of the larger-k cases are long chains (7..12 sites): variant groups that span more
        // bubbles than the path depth, overlapping groups, groups whose SNPs are partly called already
        let nsites = if k >= 11 && rng.chance(10) { rng.range(7, 12) } else { rng.range(1, nsites_max) };
        // first/last site >= k from the ends, sites >= 2k apart, plus slack
        let slack: usize = (0..=nsites).map(|_| rng.below(k + 4)).sum();
        let len = 2 * k + (nsites - 1) * 2 * k + slack + 2;
        let n = rng.range(3, 10);
        for _attempt in 0..30 {
            let anc = unique_genome(rng, m, len)?;
            // choose site positions
            let mut pos = vec![];
            let mut p = k + rng.below(slack / (nsites + 1) + 1);
            for _ in 0..nsites {
                if p + k >= len {
                    break;
                }
                pos.push(p);
                p += 2 * k + rng.below(slack / (nsites + 1) + 1);
            }
            if pos.is_empty() {
                continue;
            }
            let mut seqs: Vec<Vec<u8>> = vec![anc.clone(); n];
            let mut sites = BTreeMap::new();
            for &p in &pos {
                let a0 = anc[p];
                let a1 = other(rng, &[a0]);
                let alleles: Vec<u8> = if rng.chance(25) { vec![a0, a1, other(rng, &[a0, a1])] } else { vec![a0, a1] };
                // every allele used at least once where possible
                let mut assign: Vec<u8> = (0..n).map(|i| if i < alleles.len() { alleles[i] } else { *rng.pick(&alleles) }).collect();
                rng.shuffle(&mut assign);
                for (s, b) in assign.iter().enumerate() {
                    seqs[s][p] = *b;
                }
                sites.insert(p, String::from_utf8(assign).unwrap());
            }
            // sometimes a k-mer that contains a SNP site (not as its middle base) has a flank twin
            // at the end of the genome: same flanks around another middle base, all (k-1)-mers still
            // unique. The row of that split k-mer then holds an ambiguity code in some samples.
            let mut anc = anc;
            if !with_ref && k >= 9 && rng.chance(12) {
                let p0 = *rng.pick(&pos);
                let s0 = rng.below(n);
                // window of k bases of sample s0 containing the site away from the middle
                let off = loop {
                    let o = rng.below(k);
                    if o != k / 2 {
                        break o;
                    }
                };
                if p0 >= off && p0 - off + k <= seqs[s0].len() {
                    let st = p0 - off;
                    let mut twin = seqs[s0][st..st + k].to_vec();
                    twin[k / 2] = other(rng, &[twin[k / 2]]);
                    let mut add = rng.dna(5);
                    add.extend(twin);
                    add.extend(rng.dna(5));
                    for sq in seqs.iter_mut() {
                        sq.extend(&add);
                    }
                    anc.extend(&add);
                    probe("c17_flank_twin_of_a_kmer_over_a_snp_planted");
                }
            }
            let labels: Vec<Vec<(usize, usize)>> = seqs.iter().map(|s| (0..s.len()).map(|i| (i, 0)).collect()).collect();
            if !in_domain(&seqs, &labels, m, true) {
                continue;
            }
            let samples: Vec<Sample> = seqs.into_iter().enumerate().map(|(i, s)| Sample { name: format!("g{i}"), records: vec![("c".into(), if rng.chance(30) { revcomp(&s) } else { s })], wrap: *rng.pick(&[0usize, 60]), path: None, lower: false }).collect();
            let nv = if tier == Tier::Quick { 3 } else { 4 };
            return Some(LoCase {
                kind: if with_ref { "snp-ref".into() } else { "snp".into() },
                k,
                ancestor: String::from_utf8(anc).unwrap(),
                samples,
                sites,
                indels: vec![],
                ref_rc: with_ref && rng.chance(40),
                missing: ["0.1", "0", "0.3"][rng.below(3)].to_string(),
                base: Sim::plain(rng.next_u64() >> 1),
                variants: Self::gen_variants(rng, nv, 8),
                twin_of: None,
            });
        }
        None
    }

    fn gen_indel(&self, rng: &mut Rng, tier: Tier) -> Option<LoCase> {
        let k = *rng.pick(&[11usize, 15, 21, 31]);
        let m = k - 1;
        let nind = rng.range(1, 3);
        let slack: usize = (0..=nind).map(|_| rng.below(k + 4)).sum();
        let len = 4 * k + (nind - 1) * 4 * k + slack + 12;
        let n = rng.range(3, 8);
        for _attempt in 0..40 {
            let anc = unique_genome(rng, m, len)?;
            let mut indels = vec![];
            let mut p = 2 * k + rng.below(slack / (nind + 1) + 1);
            for _ in 0..nind {
                if p + 2 * k + 10 >= len {
                    break;
                }
                // short indels are the common ones: half of the planted indels have length 1..2
                let l = if rng.chance(50) { rng.range(1, 2) } else { rng.range(1, 10.min(k - 1)) };
                let carriers = rng.proper_subset(n);
                if rng.chance(50) {
                    // a third of the insertions repeat the bases next to them (homopolymer extension,
                    // tandem copy): their placement is ambiguous, which is still an isolated indel
                    let ins = if rng.chance(33) && p >= l { anc[p - l..p].to_vec() } else { rng.dna(l) };
                    indels.push(Indel { pos: p, ins: String::from_utf8(ins).unwrap(), del: 0, carriers });
                } else {
                    indels.push(Indel { pos: p, ins: String::new(), del: l, carriers });
                }
                p += 4 * k + 10 + rng.below(slack / (nind + 1) + 1);
            }
            if indels.is_empty() {
                continue;
            }
            // sometimes a k-mer that spans an indel junction has a "flank twin" elsewhere: the same
            // k/2 bases on either side around another middle base (appended to the ancestor, far from
            // every indel). All (k-1)-mers stay unique, so this is inside the domain; the stored row
            // of that split k-mer then holds an ambiguity code in the samples that have both
            let mut anc = anc;
            let mut twin_of = None;
            if rng.chance(15) {
                let d = rng.pick(&indels).clone();
                let mut derived: Vec<u8> = anc[..d.pos].to_vec();
                derived.extend(d.ins.bytes());
                derived.extend(&anc[(d.pos + d.del).min(anc.len())..]);
                let lo = d.pos.saturating_sub(k - 1);
                let hi = (d.pos + d.ins.len()).min(derived.len().saturating_sub(k));
                if lo < hi {
                    let st = rng.range(lo, hi);
                    let mut twin = derived[st..st + k].to_vec();
                    twin[k / 2] = other(rng, &[twin[k / 2]]);
                    let spacer = rng.dna(5);
                    anc.extend(spacer);
                    anc.extend(twin);
                    let tail = rng.dna(5);
                    anc.extend(tail);
                    twin_of = Some(d.pos);
                    probe("c18_flank_twin_of_a_junction_kmer_planted");
                }
            }
            // sometimes the same insertion (same bases, same carriers) happens at two loci
            if indels.len() >= 2 && indels[0].del == 0 && rng.chance(12) {
                let (ins, carriers) = (indels[0].ins.clone(), indels[0].carriers.clone());
                indels[1].ins = ins;
                indels[1].del = 0;
                indels[1].carriers = carriers;
            }
            let mut seqs = vec![];
            let mut labels = vec![];
            for s in 0..n {
                let mut seq = vec![];
                let mut lab = vec![];
                let mut i = 0;
                while i < anc.len() {
                    if let Some(ind) = indels.iter().find(|d| d.pos == i && d.carriers.contains(&s)) {
                        if ind.del > 0 {
                            i += ind.del;
                            continue;
                        }
                        for (o, b) in ind.ins.bytes().enumerate() {
                            seq.push(b);
                            lab.push((i, o + 1));
                        }
                    }
                    seq.push(anc[i]);
                    lab.push((i, 0));
                    i += 1;
                }
                seqs.push(seq);
                labels.push(lab);
            }
            // C18's domain: the ancestor has unique (k-1)-mers; every sample must keep that (an indel
            // could create a repeat by chance). An indel whose placement is ambiguous (a base
            // inserted next to the same base, a tandem copy) is inside the domain, so (k-1)-mers
            // shared between samples need not carry the same label here.
            if !in_domain(&seqs, &labels, m, false) {
                continue;
            }
            let samples: Vec<Sample> = seqs.into_iter().enumerate().map(|(i, s)| Sample { name: format!("g{i}"), records: vec![("c".into(), if rng.chance(30) { revcomp(&s) } else { s })], wrap: 0, path: None, lower: false }).collect();
            let nv = if tier == Tier::Quick { 2 } else { 3 };
            return Some(LoCase {
                kind: "indel".into(),
                k,
                ancestor: String::from_utf8(anc).unwrap(),
                samples,
                sites: BTreeMap::new(),
                indels,
                ref_rc: false,
                missing: "0.1".into(),
                base: Sim::plain(rng.next_u64() >> 1),
                variants: Self::gen_variants(rng, nv, 4),
                twin_of,
            });
        }
        None
    }

    fn gen_wellformed(&self, rng: &mut Rng) -> LoCase {
        let k = *rng.pick(&[7usize, 9, 11, 15, 21, 31]);
        let n = rng.range(3, 8);
        let mut o = GenomeOpts::swarm(rng, k);
        o.len = rng.range(5 * k, 5 * k + 400);
        o.snp_sites = rng.range(2, 12);
        o.n_runs = rng.chance(30);
        let samples = gen_samples(rng, n, k, &o, "g");
        LoCase {
            kind: "wellformed".into(),
            k,
            ancestor: String::new(),
            samples,
            sites: BTreeMap::new(),
            indels: vec![],
            ref_rc: false,
            missing: ["0.1", "0", "0.3", "0.5"][rng.below(4)].to_string(),
            base: Sim::plain(rng.next_u64() >> 1),
            variants: Self::gen_variants(rng, 2, 8),
            twin_of: None,
        }
    }
}

/// well-formedness of a `lo` SNP alignment: equal lengths, >= 2 distinct A/C/G/T per column,
/// at most the allowed fraction of missing samples
fn wellformed(fas: &[u8], n: usize, missing: f64) -> Result<(Vec<String>, Vec<Vec<u8>>), String> {
    let (names, seqs) = parse_fasta(fas)?;
    if names.len() != n {
        return Err(format!("{} sequences for {n} samples", names.len()));
    }
    let l = seqs[0].len();
    if seqs.iter().any(|s| s.len() != l) {
        return Err(format!("sequences of unequal length {:?}", seqs.iter().map(|s| s.len()).collect::<Vec<_>>()));
    }
    for i in 0..l {
        let col: Vec<u8> = seqs.iter().map(|s| s[i]).collect();
        let alleles: BTreeSet<u8> = col.iter().copied().filter(|b| matches!(b, b'A' | b'C' | b'G' | b'T')).collect();
        if alleles.len() < 2 {
            return Err(format!("column {i} {:?} has fewer than two distinct A/C/G/T alleles", String::from_utf8_lossy(&col)));
        }
        let miss = col.iter().filter(|b| !matches!(b, b'A' | b'C' | b'G' | b'T')).count();
        // same arithmetic as a user would do: fraction of samples without a base
        if miss as f64 / n as f64 > missing + 1e-6 {
            return Err(format!("column {i} {:?} has {miss}/{n} missing samples, more than -m {missing}", String::from_utf8_lossy(&col)));
        }
    }
    Ok((names, seqs))
}

fn refb_ok(field: &str, r: u8) -> bool {
    field.as_bytes().first() == Some(&r)
}
fn alts_of(field: &str) -> BTreeSet<u8> {
    field.split(',').filter(|s| !s.is_empty()).map(|s| s.as_bytes()[0]).collect()
}

fn canon_col(c: Vec<u8>) -> Vec<u8> {
    let cc: Vec<u8> = c.iter().map(|b| comp(*b)).collect();
    if cc < c {
        cc
    } else {
        c
    }
}

fn occurs(hay: &[u8], needle: &[u8]) -> Vec<usize> {
    if needle.is_empty() || needle.len() > hay.len() {
        return vec![];
    }
    (0..=hay.len() - needle.len()).filter(|i| &hay[*i..*i + needle.len()] == needle).collect()
}

impl Workload for LoWorkload {
    type Case = LoCase;
    fn property(&self) -> &'static str {
        self.property
    }
    fn name(&self) -> &'static str {
        "lo"
    }
    fn rule(&self) -> String {
        if self.property == "C17" {
            "one run = one planted-truth genome set: an ancestor whose (k-1)-mers are unique on both strands (greedy walk with backtracking, so k=7 is reachable), 3..10 samples with 1..6 (a tenth of the cases 7..12) substitution sites >= 2k apart and >= k from the ends (bi- and tri-allelic, random assignment), kept only if every sample stays inside the domain; k in 7..33 (reference mode k >= 15, reference = ancestor or its reverse complement); ska build then ska lo at several (threads 1..8, cores, hash seed, policy, hook subset) points. Oracle: exactly one column per planted site with every sample's base up to order and complement; with -r every VCF record at its true coordinate with true REF/ALT and genotypes, pseudo-genomes agree at called positions. A second stream of arbitrary inputs (close SNPs, indels, N) checks well-formedness only. Non-trivial = lo succeeded at least once and its output was compared; distinct = distinct hash of (genomes, planted sites, variants)".into()
        } else {
            "one run = an ancestor with unique (k-1)-mers and 1..3 planted insertions/deletions of length 1..10, >= 4k apart, random carrier sets for 3..8 samples, k in {11,15,21,31}; ska build then ska lo at (threads 1..4, cores, hash seed, policy, hook subset) points. Oracle per VCF record by string search in the generated samples: before+REF+after (or its reverse complement) occurs in exactly the samples genotyped 0, before+ALT+after in exactly those genotyped 1; every record maps to one planted indel, none twice; recall >= 90% over the batch. Non-trivial = lo succeeded and the indel VCF was checked; distinct = distinct hash of (genomes, indels, variants)".into()
        }
    }
    fn assumptions(&self) -> Vec<String> {
        vec![
            "the generator explores a subset of the property's domain (shared (k-1)-mers must sit at the same coordinate and orientation in all samples); it cannot alarm outside the domain".into(),
            "truth is planted, not modelled; k-mer extraction by the real builder".into(),
        ]
    }
    fn batch_verdict(&self, acct: &Value) -> Option<(String, String)> {
        if self.property != "C18" {
            return None;
        }
        let planted = acct["probes"]["c18_planted_indels"].as_u64().unwrap_or(0);
        let found = acct["probes"]["c18_planted_indels_reported"].as_u64().unwrap_or(0);
        if planted >= 20 && (found as f64) < 0.9 * planted as f64 {
            return Some(("lo:indel-recall-below-90-percent".into(), format!("{found} of {planted} planted isolated indels were reported over the batch ({:.1}%)", 100.0 * found as f64 / planted as f64)));
        }
        // the same claim for every sub-population of the quantifier's own dimensions (k, length,
        // insertion/deletion, carrier pattern) that is large enough in this batch
        if let Some(p) = acct["probes"].as_object() {
            for (name, v) in p {
                if let Some(st) = name.strip_prefix("c18_stratum_").and_then(|x| x.strip_suffix("_planted")) {
                    let pl = v.as_u64().unwrap_or(0);
                    let rp = p.get(&format!("c18_stratum_{st}_reported")).and_then(|x| x.as_u64()).unwrap_or(0);
                    // grid cells (k with an exact length, k with insertion / deletion) get a floor, not
                    // the 90 %: the property's allowance is an aggregate, but a cell of the
                    // quantifier's grid that is mostly unreported is a class of indels lost
                    let cell = st.starts_with('k') && st.contains('_');
                    if cell {
                        if pl >= 200 && (rp as f64) < 0.5 * pl as f64 {
                            return Some((format!("lo:indel-class-mostly-unreported[{st}]"), format!("{rp} of {pl} planted isolated indels of the class '{st}' were reported over the batch ({:.1}%)", 100.0 * rp as f64 / pl as f64)));
                        }
                        continue;
                    }
                    if pl >= 300 && (rp as f64) < 0.9 * pl as f64 {
                        return Some((format!("lo:indel-recall-below-90-percent[{st}]"), format!("{rp} of {pl} planted isolated indels of the sub-population '{st}' were reported over the batch ({:.1}%)", 100.0 * rp as f64 / pl as f64)));
                    }
                }
            }
        }
        None
    }
    fn generate(&self, seed: u64, _index: u64, tier: Tier) -> LoCase {
        let mut rng = Rng::new(seed);
        if self.property == "C18" {
            loop {
                if let Some(c) = self.gen_indel(&mut rng, tier) {
                    return c;
                }
            }
        }
        let roll = rng.below(10);
        loop {
            let c = match roll {
                0..=4 => self.gen_snp(&mut rng, false, tier),
                5..=7 => self.gen_snp(&mut rng, true, tier),
                _ => Some(self.gen_wellformed(&mut rng)),
            };
            if let Some(c) = c {
                return c;
            }
        }
    }

    fn execute(&self, c: &LoCase, ctx: &mut Ctx) -> Result<Outcome, HarnessError> {
        let dir = &ctx.dir;
        let mut log = vec![format!("lo case {} k={} n={} sites={} indels={}", c.kind, c.k, c.samples.len(), c.sites.len(), c.indels.len())];
        let mut out = Outcome::default();
        let n = c.samples.len();
        for s in &c.samples {
            dir.write(&s.file(), &s.bytes());
        }
        let with_ref = c.kind == "snp-ref";
        let anc = c.ancestor.as_bytes();
        let reference: Vec<u8> = if c.ref_rc { revcomp(anc) } else { anc.to_vec() };
        if with_ref {
            // the reference file may be wrapped at any width or not at all, with LF or CRLF line ends
            let h = crate::util::mix(c.base.seed, 0x7ef);
            let width = [60usize, 0, 100, 150, 70][(h % 5) as usize];
            let mut text = crate::util::wrap_fasta("anc", &reference, width);
            if (h >> 8) % 4 == 0 {
                text = text.replace('\n', "\r\n");
                probe("c17_reference_with_crlf_line_ends");
            }
            dir.write("ref.fa", text.as_bytes());
        }
        let mut a = vec!["build".to_string(), "-o".into(), "in".into(), "-k".into(), c.k.to_string()];
        a.extend(c.samples.iter().map(|s| s.file()));
        let rb = run_proc(dir, &c.base.proc(a), &mut log)?;
        if !rb.ok() {
            out.log = log;
            return Ok(out);
        }
        let missing: f64 = c.missing.parse().unwrap_or(0.1);
        // the samples' sequences in ancestor orientation (records may be stored reverse complemented)
        let plain: Vec<Vec<u8>> = c.samples.iter().map(|s| s.records[0].1.clone()).collect();
        let mut viol: Option<(String, String)> = None;
        let mut planted_found = 0u64;
        for (vi, (threads, sim)) in c.variants.iter().enumerate() {
            let tag = format!("o{vi}");
            // every second execution finds output files of an earlier, larger run under its prefix
            if (c.base.seed as usize + vi) % 2 == 0 {
                let stale_fa: String = c.samples.iter().map(|s| format!(">{}\n{}\n", s.name, "ACGT".repeat(40))).collect();
                let mut stale_vcf = String::from("##fileformat=VCFv4.2\n#CHROM\tPOS\tID\tREF\tALT\tQUAL\tFILTER\tINFO\tFORMAT\n");
                for j in 0..40 {
                    stale_vcf.push_str(&format!("stale\t{}\t.\tA\tC\t.\tbefore=AAAAAAAAAA;after=CCCCCCCCCC\t.\tGT{}\n", j + 1, "\t0".repeat(n)));
                }
                for suf in ["_snps.fas", "_pseudo_genomes.fas"] {
                    dir.write(&format!("{tag}{suf}"), stale_fa.as_bytes());
                }
                for suf in ["_snps.vcf", "_indels.vcf"] {
                    dir.write(&format!("{tag}{suf}"), stale_vcf.as_bytes());
                }
                probe("lo_run_over_existing_output_files");
            }
            let mut a = vec!["lo".to_string(), "in.skf".into(), tag.clone(), "-m".into(), c.missing.clone(), "--threads".into(), threads.to_string()];
            if with_ref {
                a.push("-r".into());
                a.push("ref.fa".into());
            }
            let r = run_proc(dir, &sim.proc(a), &mut log)?;
            if let Some(d) = &r.recorded {
                crate::sched::LAST_RECORDED.with(|l| *l.borrow_mut() = Some(d.clone()));
            }
            let ctxs = format!("k={} threads={threads} {sim:?}", c.k);
            if r.sim_failed() {
                viol = Some(("lo:deadlock-or-livelock".into(), ctxs));
                break;
            }
            if c.kind == "wellformed" {
                if !r.ok() {
                    continue; // e.g. no entry node: ska says so and exits 1
                }
            } else if !r.ok() {
                let stale = (c.base.seed as usize + vi) % 2 == 0;
                let crlf_ref = with_ref && dir.read("ref.fa").map(|d| d.contains(&b'\r')).unwrap_or(false);
                if r.refused() && (stale || crlf_ref) {
                    // refusing to overwrite existing outputs, or a reference with CRLF line ends, is
                    // outside what C17 / C18 speak about: no verdict for this execution
                    probe("lo_refuses_with_existing_outputs_or_crlf_reference");
                    continue;
                }
                viol = Some((format!("lo:{}-planted-variants-but-lo-fails", c.kind), format!("{ctxs}: {} {}", r.status_str(), r.stderr_tail())));
                break;
            }
            let fas = match dir.read(&format!("{tag}_snps.fas")) {
                Some(f) => f,
                // only the SNP kinds demand a SNP alignment; elsewhere no file = no SNP columns
                None if c.kind == "snp" || c.kind == "snp-ref" => {
                    viol = Some(("lo:no-snp-alignment-written".into(), ctxs));
                    break;
                }
                None => {
                    probe("lo_wrote_no_snp_alignment");
                    Vec::new()
                }
            };
            out.nontrivial = true;
            let (_, seqs) = if fas.is_empty() && c.kind != "snp" && c.kind != "snp-ref" {
                (vec![], vec![])
            } else {
                match wellformed(&fas, n, missing) {
                    Ok(x) => x,
                    Err(e) => {
                        // (in an indel run this is still C17's clause about every run: reported under
                        // the property being checked only for C17)
                        if self.property == "C18" {
                            probe("c18_run_with_a_malformed_snp_alignment");
                            (vec![], vec![])
                        } else {
                            viol = Some(("lo:snp-alignment-not-well-formed".into(), format!("{ctxs}: {e}")));
                            break;
                        }
                    }
                }
            };
            match c.kind.as_str() {
                "wellformed" => probe("c17_wellformed_stream_checked"),
                "snp" => {
                    let mut got: Vec<Vec<u8>> = columns(&seqs).unwrap_or_default().into_iter().map(canon_col).collect();
                    got.sort();
                    // truth in the orientation the sample file has is irrelevant: columns are up to strand
                    let mut exp: Vec<Vec<u8>> = c.sites.values().map(|s| canon_col(s.as_bytes().to_vec())).collect();
                    exp.sort();
                    if got != exp {
                        // is every reported column a planted column in which some samples' bases are
                        // merely reported missing?
                        let only_missing = got.len() == exp.len() && {
                            let mut unused: Vec<Vec<u8>> = c.sites.values().map(|s| s.as_bytes().to_vec()).collect();
                            let raw: Vec<Vec<u8>> = columns(&seqs).unwrap_or_default();
                            raw.iter().all(|g| {
                                let hit = unused.iter().position(|e| {
                                    let ec: Vec<u8> = e.iter().map(|b| comp(*b)).collect();
                                    [e.clone(), ec].iter().any(|x| g.iter().zip(x.iter()).all(|(a, b)| a == b || *a == b'-'))
                                });
                                match hit {
                                    Some(i) => {
                                        unused.remove(i);
                                        true
                                    }
                                    None => false,
                                }
                            })
                        };
                        let missing_sig = "lo:true-base-reported-missing".to_string();
                        let sig = if got.len() < exp.len() { "lo:isolated-snp-missed" } else if got.len() > exp.len() { "lo:spurious-or-duplicated-snp-column" } else if only_missing { missing_sig.as_str() } else { "lo:snp-column-with-wrong-bases" };
                        viol = Some((sig.into(), format!("{ctxs}: planted {} sites {:?}, lo reports {} columns {:?}", exp.len(), exp.iter().map(|x| String::from_utf8_lossy(x).to_string()).collect::<Vec<_>>(), got.len(), got.iter().map(|x| String::from_utf8_lossy(x).to_string()).collect::<Vec<_>>())));
                        break;
                    }
                    probe("c17_snp_sets_complete_and_exact");
                    if c.sites.values().any(|s| s.bytes().collect::<BTreeSet<u8>>().len() == 3) {
                        probe("c17_triallelic_site_called");
                    }
                }
                "snp-ref" => {
                    let vcf = dir.read(&format!("{tag}_snps.vcf")).unwrap_or_default();
                    let pg = dir.read(&format!("{tag}_pseudo_genomes.fas")).unwrap_or_default();
                    let l = reference.len();
                    // true base of sample s at reference coordinate x
                    let truth = |s: usize, x: usize| -> u8 {
                        if c.ref_rc {
                            comp(match c.sites.get(&(l - 1 - x)) { Some(col) => col.as_bytes()[s], None => anc[l - 1 - x] })
                        } else {
                            match c.sites.get(&x) { Some(col) => col.as_bytes()[s], None => anc[x] }
                        }
                    };
                    let mut called = vec![];
                    for line in String::from_utf8_lossy(&vcf).lines() {
                        if line.starts_with('#') || line.trim().is_empty() {
                            continue;
                        }
                        let f: Vec<&str> = line.split('\t').collect();
                        if f.len() != 9 + n {
                            viol = Some(("lo:vcf-malformed".into(), format!("{ctxs}: {line:?}")));
                            break;
                        }
                        let x: usize = f[1].parse::<usize>().unwrap_or(0).wrapping_sub(1);
                        let site = if c.ref_rc { l.wrapping_sub(1).wrapping_sub(x) } else { x };
                        if x >= l || !c.sites.contains_key(&site) {
                            viol = Some(("lo:snp-reported-at-wrong-coordinate".into(), format!("{ctxs}: record {line:?}; planted reference coordinates (1-based) {:?}", c.sites.keys().map(|p| if c.ref_rc { l - p } else { p + 1 }).collect::<Vec<_>>())));
                            break;
                        }
                        let refb = f[3].as_bytes()[0];
                        let alts: Vec<u8> = f[4].split(',').filter(|s| !s.is_empty()).map(|s| s.as_bytes()[0]).collect();
                        // samples genotyped '.' although every sample has a base here
                        let dotted: Vec<usize> = (0..n).filter(|s| f[9 + s] == ".").collect();
                        let true_set_all: BTreeSet<u8> = (0..n).map(|s| truth(s, x)).collect();
                        let true_set: BTreeSet<u8> = (0..n).filter(|s| !dotted.contains(s)).map(|s| truth(s, x)).collect();
                        let exp_alts: BTreeSet<u8> = true_set.iter().copied().filter(|b| *b != reference[x]).collect();
                        if !dotted.is_empty() && refb_ok(f[3], reference[x]) && alts_of(f[4]) == exp_alts {
                            let consistent = (0..n).filter(|s| !dotted.contains(s)).all(|s| {
                                let t = truth(s, x);
                                let alts: Vec<u8> = f[4].split(',').filter(|s| !s.is_empty()).map(|s| s.as_bytes()[0]).collect();
                                f[9 + s] == if t == reference[x] { "0".to_string() } else { (alts.iter().position(|a| *a == t).map(|p| p + 1).unwrap_or(0)).to_string() }
                            });
                            if consistent {
                                viol = Some((
                                    "lo:true-base-reported-missing".to_string(),
                                    format!("{ctxs}: record {line:?}: samples {dotted:?} are genotyped '.' although they carry {:?} (true allele set {:?})", dotted.iter().map(|s| truth(*s, x) as char).collect::<Vec<_>>(), true_set_all.iter().map(|b| *b as char).collect::<Vec<_>>()),
                                ));
                                break;
                            }
                        }
                        let true_set = true_set_all;
                        let exp_alts: BTreeSet<u8> = true_set.iter().copied().filter(|b| *b != reference[x]).collect();
                        if refb != reference[x] || alts.iter().copied().collect::<BTreeSet<u8>>() != exp_alts || alts.len() != exp_alts.len() {
                            viol = Some(("lo:vcf-wrong-alleles".into(), format!("{ctxs}: record {line:?}: true REF {} ALT set {:?}", reference[x] as char, exp_alts.iter().map(|b| *b as char).collect::<Vec<_>>())));
                            break;
                        }
                        for s in 0..n {
                            let t = truth(s, x);
                            let exp = if t == refb { "0".to_string() } else { (alts.iter().position(|a| *a == t).unwrap() + 1).to_string() };
                            if f[9 + s] != exp {
                                viol = Some(("lo:vcf-wrong-genotype".into(), format!("{ctxs}: record {line:?}: sample {s} carries {} so its genotype is {exp}", t as char)));
                                break;
                            }
                        }
                        called.push(x);
                    }
                    if viol.is_some() {
                        break;
                    }
                    // "exactly one column per substituted site" holds with a reference too: every
                    // planted site has its record (once), none is silently dropped
                    {
                        let distinct: BTreeSet<usize> = called.iter().copied().collect();
                        if distinct.len() < called.len() {
                            viol = Some(("lo:spurious-or-duplicated-snp-column".into(), format!("{ctxs}: the VCF holds two records at one coordinate; called (0-based) {called:?}")));
                            break;
                        }
                        if distinct.len() < c.sites.len() {
                            let missed: Vec<usize> = c.sites.keys().map(|p| if c.ref_rc { l - 1 - p } else { *p }).filter(|x| !distinct.contains(x)).map(|x| x + 1).collect();
                            viol = Some(("lo:isolated-snp-missed".into(), format!("{ctxs}: no VCF record (and no column) for the planted sites at reference coordinates (1-based) {missed:?}; planted {} sites, {} reported", c.sites.len(), distinct.len())));
                            break;
                        }
                    }
                    // SNP alignment = the called positions in increasing order with the true bases
                    let cols = (0..seqs[0].len()).map(|i| seqs.iter().map(|s| s[i]).collect::<Vec<u8>>()).collect::<Vec<_>>();
                    let mut cs = called.clone();
                    cs.sort();
                    let exp: Vec<Vec<u8>> = cs.iter().map(|x| (0..n).map(|s| truth(s, *x)).collect()).collect();
                    // (C17 grants the alignment "up to column order and strand" with a reference too)
                    let canon_sorted = |v: &[Vec<u8>]| {
                        let mut w: Vec<Vec<u8>> = v.iter().cloned().map(canon_col).collect();
                        w.sort();
                        w
                    };
                    if canon_sorted(&cols) != canon_sorted(&exp) {
                        viol = Some(("lo:snp-alignment-disagrees-with-vcf-or-truth".into(), format!("{ctxs}: columns {:?} expected {:?}", cols.iter().map(|x| String::from_utf8_lossy(x).to_string()).collect::<Vec<_>>(), exp.iter().map(|x| String::from_utf8_lossy(x).to_string()).collect::<Vec<_>>())));
                        break;
                    }
                    match parse_fasta(&pg) {
                        Ok((_, g)) if g.len() == n && g.iter().all(|s| s.len() == l) => {
                            for x in &cs {
                                for (s, gs) in g.iter().enumerate() {
                                    if gs[*x] != truth(s, *x) {
                                        viol = Some(("lo:pseudo-genome-disagrees-at-called-position".into(), format!("{ctxs}: sample {s} position {} has {} in the pseudo-genome, {} in the sample", x + 1, gs[*x] as char, truth(s, *x) as char)));
                                    }
                                }
                            }
                        }
                        _ => viol = Some(("lo:pseudo-genomes-malformed".into(), ctxs.clone())),
                    }
                    if viol.is_some() {
                        break;
                    }
                    probe_n("c17_ref_mode_sites_planted", c.sites.len() as u64);
                    probe_n("c17_ref_mode_sites_called", called.len() as u64);
                    if c.ref_rc {
                        probe("c17_reference_is_reverse_complement");
                    }
                }
                _ => {
                    // indel VCF
                    let vcf = dir.read(&format!("{tag}_indels.vcf")).unwrap_or_default();
                    // A record corresponds to a planted indel when it splits the samples the way the
                    // indel's carriers do. (Allele length and which side is "longer" are not compared:
                    // next to a tandem repeat the same event has several equivalent descriptions; the
                    // string search above already decides whether the described alleles are real.)
                    let part = |set: &BTreeSet<usize>| -> BTreeSet<usize> {
                        let comp: BTreeSet<usize> = (0..n).filter(|s| !set.contains(s)).collect();
                        if comp < *set { comp } else { set.clone() }
                    };
                    let mut matched: BTreeMap<BTreeSet<usize>, usize> = BTreeMap::new();
                    let mut planted_keys: BTreeMap<BTreeSet<usize>, usize> = BTreeMap::new();
                    for d in &c.indels {
                        let carriers: BTreeSet<usize> = d.carriers.iter().copied().collect();
                        *planted_keys.entry(part(&carriers)).or_insert(0) += 1;
                    }
                    let mut nrec = 0;
                    for line in String::from_utf8_lossy(&vcf).lines() {
                        if line.starts_with('#') || line.trim().is_empty() {
                            continue;
                        }
                        nrec += 1;
                        let f: Vec<&str> = line.split('\t').collect();
                        // the flanks: key=value pairs of the FILTER or the INFO column (the pinned writer
                        // puts them under FILTER; which of the two is nobody's property)
                        let info: BTreeMap<&str, &str> = f.iter().skip(6).take(2).flat_map(|s| s.split(';')).filter_map(|kv| kv.split_once('=')).collect();
                        if f.len() != 9 + n || !info.contains_key("before") || !info.contains_key("after") {
                            viol = Some(("lo:indel-vcf-malformed".into(), format!("{ctxs}: {line:?}")));
                            break;
                        }
                        let al = |s: &str| if s == "-" { String::new() } else { s.to_string() };
                        let (refa, alta) = (al(f[3]), al(f[4]));
                        let hap = |a: &str| format!("{}{}{}", info["before"], a, info["after"]).into_bytes();
                        let (href, halt) = (hap(&refa), hap(&alta));
                        let carries = |s: usize, h: &[u8]| !occurs(&plain[s], h).is_empty() || !occurs(&plain[s], &revcomp(h)).is_empty();
                        for s in 0..n {
                            let (hr, ha) = (carries(s, &href), carries(s, &halt));
                            let exp = match (hr, ha) {
                                (true, false) => "0",
                                (false, true) => "1",
                                (true, true) => "0/1",
                                _ => ".",
                            };
                            if f[9 + s] != exp {
                                viol = Some(("lo:indel-genotype-not-carried".into(), format!("{ctxs}: record {line:?}: sample {s} (before+REF+after present: {hr}, before+ALT+after present: {ha}) should be genotyped {exp}")));
                                break;
                            }
                        }
                        if viol.is_some() {
                            break;
                        }
                        // which planted indel is it
                        let dl = (refa.len() as i64 - alta.len() as i64).unsigned_abs() as usize;
                        let long_is_ref = refa.len() > alta.len();
                        let long_set: BTreeSet<usize> = (0..n).filter(|s| f[9 + s] == if long_is_ref { "0" } else { "1" }).collect();
                        let key = part(&long_set);
                        let planted_len: BTreeSet<usize> = c.indels.iter().filter(|d| part(&d.carriers.iter().copied().collect()) == key).map(|d| d.del.max(d.ins.len())).collect();
                        if !planted_keys.contains_key(&key) || f[9..].iter().any(|g| *g != "0" && *g != "1") {
                            viol = Some(("lo:indel-record-matches-no-planted-indel".into(), format!("{ctxs}: record {line:?}; planted {:?}", c.indels)));
                            break;
                        }
                        if !planted_len.contains(&dl) {
                            probe("c18_record_describes_planted_indel_with_other_allele_length");
                        }
                        *matched.entry(key).or_insert(0) += 1;
                    }
                    if viol.is_some() {
                        break;
                    }
                    if let Some((key, cnt)) = matched.iter().find(|(k, c)| **c > planted_keys[*k]) {
                        // context of the planted indel(s) concerned: ancestor window, before and after the event
                        let lowc = c.indels.iter().filter(|d| part(&d.carriers.iter().copied().collect()) == *key).any(|d| {
                            let a = c.ancestor.as_bytes();
                            let (lo, hi) = (d.pos.saturating_sub(c.k + 14), d.pos + c.k + 14);
                            let mut derived = a[..d.pos].to_vec();
                            derived.extend(d.ins.bytes());
                            derived.extend(&a[(d.pos + d.del).min(a.len())..]);
                            low_complexity(a, lo, hi) || low_complexity(&derived, lo, hi + d.ins.len())
                        });
                        let ctx_tag = if lowc { "low-complexity-context" } else { "plain-context" };
                        viol = Some((format!("lo:indel-reported-twice[{ctx_tag}]"), format!("{ctxs}: {} planted indel(s) splitting the samples as {:?} / rest are reported by {cnt} records", planted_keys[key], key)));
                        break;
                    }
                    if vi == 0 {
                        planted_found = matched.iter().map(|(k, c)| (*c).min(planted_keys[k]) as u64).sum();
                        // recall per sub-population of the planted indels (a record cannot be told apart
                        // within a group of planted indels that split the samples the same way, so the first
                        // `matched` members of a group count as reported)
                        let mut rank: BTreeMap<BTreeSet<usize>, usize> = BTreeMap::new();
                        let a = c.ancestor.as_bytes();
                        for d in &c.indels {
                            let key = part(&d.carriers.iter().copied().collect());
                            let r = rank.entry(key.clone()).or_insert(0);
                            let found = *r < matched.get(&key).copied().unwrap_or(0);
                            *r += 1;
                            let l = d.del.max(d.ins.len());
                            let mut strata = vec![match l { 1 => "len1", 2 => "len2", 3..=5 => "len3to5", _ => "len6to10" }, if d.del > 0 { "deletion" } else { "insertion" }];
                            if d.del == 0 && d.pos >= l && a[d.pos - l..d.pos] == *d.ins.as_bytes() {
                                strata.push("insertion_copying_its_left_neighbour");
                            }
                            if planted_keys[&key] > 1 {
                                strata.push("same_sample_split_as_another_indel");
                            }
                            if c.indels.iter().filter(|e| e.del == 0 && d.del == 0 && e.ins == d.ins && e.carriers == d.carriers).count() > 1 {
                                strata.push("same_insertion_at_two_loci");
                            }
                            if d.carriers.len() == 1 || d.carriers.len() == n - 1 {
                                strata.push("singleton_carrier_or_non_carrier");
                            }
                            if c.twin_of == Some(d.pos) {
                                strata.push("junction_kmer_with_a_flank_twin");
                            }
                            strata.push(match c.k { 11 => "k11", 15 => "k15", 21 => "k21", _ => "k31" });
                            // the cells of the quantifier's own grid: every k with every exact length,
                            // and with insertion / deletion
                            let mut strata: Vec<String> = strata.into_iter().map(|x| x.to_string()).collect();
                            strata.push(format!("k{}_len{}", c.k, l));
                            strata.push(format!("k{}_{}", c.k, if d.del > 0 { "deletion" } else { "insertion" }));
                            for st in strata {
                                probe(&format!("c18_stratum_{st}_planted"));
                                if found {
                                    probe(&format!("c18_stratum_{st}_reported"));
                                }
                            }
                        }
                    }
                    let _ = nrec;
                    probe("c18_indel_vcf_checked");
                }
            }
        }
        // A "true base reported missing" violation is attributed: if the same input is called
        // completely with a larger path depth (-d 8), the cause is depth pruning in the graph
        // traversal (the listed known finding); otherwise it is something else.
        if let Some((sig, msg)) = &viol {
            if sig.starts_with("lo:true-base-reported-missing") {
                let mut a = vec!["lo".to_string(), "in.skf".into(), "deep".into(), "-m".into(), c.missing.clone(), "-d".into(), "8".into()];
                if with_ref {
                    a.push("-r".into());
                    a.push("ref.fa".into());
                }
                let r = run_proc(dir, &c.base.proc(a), &mut log)?;
                let complete = r.ok() && {
                    if with_ref {
                        let vcf = dir.read("deep_snps.vcf").unwrap_or_default();
                        let recs: Vec<String> = String::from_utf8_lossy(&vcf).lines().filter(|l| !l.starts_with('#')).map(|l| l.to_string()).collect();
                        recs.len() == c.sites.len() && recs.iter().all(|l| l.split('\t').skip(9).all(|g| g != "."))
                    } else {
                        match dir.read("deep_snps.fas").map(|f| parse_fasta(&f).and_then(|(_, s)| columns(&s))) {
                            Some(Ok(cols)) => {
                                let mut got: Vec<Vec<u8>> = cols.into_iter().map(canon_col).collect();
                                got.sort();
                                let mut exp: Vec<Vec<u8>> = c.sites.values().map(|s| canon_col(s.as_bytes().to_vec())).collect();
                                exp.sort();
                                got == exp
                            }
                            _ => false,
                        }
                    }
                };
                let tag = if complete { "gone-with--d-8" } else { "persists-with--d-8" };
                viol = Some((format!("lo:true-base-reported-missing[{tag}]"), format!("{msg}; with -d 8 the calls are {}", if complete { "complete and exact" } else { "still wrong" })));
            }
        }
        if c.kind == "indel" && viol.is_none() && out.nontrivial {
            probe_n("c18_planted_indels", c.indels.len() as u64);
            probe_n("c18_planted_indels_reported", planted_found);
            if (planted_found as usize) < c.indels.len() {
                probe("c18_runs_with_a_missed_indel");
            }
        }
        out.violation = viol;
        out.log = log;
        Ok(out)
    }

    fn shrink(&self, c: &LoCase) -> Vec<LoCase> {
        let mut v = vec![];
        if c.variants.len() > 1 {
            for i in 0..c.variants.len() {
                let mut d = c.clone();
                d.variants = vec![c.variants[i].clone()];
                v.push(d);
            }
        }
        // fewer planted sites: restore the ancestor base in every sample
        if c.sites.len() > 1 {
            for p in c.sites.keys() {
                let mut d = c.clone();
                d.sites.remove(p);
                let anc = c.ancestor.as_bytes();
                // only valid when records are in ancestor orientation
                let mut ok = true;
                for s in d.samples.iter_mut() {
                    if s.records[0].1.len() != anc.len() {
                        ok = false;
                        break;
                    }
                    let fwd = s.records[0].1.iter().zip(anc).filter(|(a, b)| a != b).count() <= c.sites.len();
                    if !fwd {
                        ok = false;
                        break;
                    }
                    s.records[0].1[*p] = anc[*p];
                }
                if ok {
                    v.push(d);
                }
            }
        }
        for i in 0..c.variants.len() {
            let (t, s) = &c.variants[i];
            if *t > 1 {
                let mut d = c.clone();
                d.variants[i].0 = 1;
                v.push(d);
            }
            if s.policy != "uniform" || s.hooks != 0 || s.cores != 1 {
                let mut d = c.clone();
                d.variants[i].1 = Sim::plain(s.seed);
                v.push(d);
            }
            if s.seed > 9 {
                let mut d = c.clone();
                d.variants[i].1.seed = 1;
                v.push(d);
            }
        }
        v
    }
    fn refine(&self, c: &LoCase, signature: &str) -> LoCase {
        if c.variants.len() != 1 || c.variants[0].0 < 2 {
            return c.clone(); // single-threaded: there is no schedule to minimise
        }
        crate::sched::minimise_schedule(
            c,
            |x| x.variants.get_mut(0).map(|v| &mut v.1),
            |x| {
                crate::sched::LAST_RECORDED.with(|l| *l.borrow_mut() = None);
                let mut ctx = Ctx::new();
                let _ = self.execute(x, &mut ctx);
                crate::sched::LAST_RECORDED.with(|l| l.borrow_mut().take())
            },
            |x| {
                let mut ctx = Ctx::new();
                matches!(self.execute(x, &mut ctx), Ok(Outcome { violation: Some((ref s, _)), .. }) if s == signature)
            },
        )
    }
    fn sample_view(&self, c: &LoCase) -> Value {
        json!({"kind": c.kind, "k": c.k, "ancestor": c.ancestor, "samples": c.samples.len(), "sites": c.sites, "indels": c.indels, "ref_rc": c.ref_rc, "missing": c.missing, "variants": c.variants})
    }
}
