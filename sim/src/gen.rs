//! Seeded workload generators: genomes, samples, FASTA files.

use serde::{Deserialize, Serialize};

use crate::util::{revcomp, wrap_fasta, Rng};

pub const VALID_K: [usize; 30] = [
    5, 7, 9, 11, 13, 15, 17, 19, 21, 23, 25, 27, 29, 31, 33, 35, 37, 39, 41, 43, 45, 47, 49, 51,
    53, 55, 57, 59, 61, 63,
];

/// all 30 valid k, extra weight on the 64/128-bit boundary and on small k (more collisions,
/// hence more ambiguity codes and self-complementary k-mers)
pub fn pick_k(rng: &mut Rng) -> usize {
    match rng.below(10) {
        0..=2 => *rng.pick(&[29, 31, 33, 35]),
        3..=4 => *rng.pick(&[5, 7, 9, 11]),
        _ => *rng.pick(&VALID_K),
    }
}

#[derive(Clone, Debug, Serialize, Deserialize, PartialEq)]
pub struct Sample {
    pub name: String,
    /// FASTA records (id, sequence)
    #[serde(with = "records_as_text")]
    pub records: Vec<(String, Vec<u8>)>,
    pub wrap: usize,
    /// file path relative to the run directory when it is not `<name>.fa` (sub-directory, other
    /// extension or case, dots in the stem, gzip); chosen so that ska derives `name` from it
    #[serde(default, skip_serializing_if = "Option::is_none")]
    pub path: Option<String>,
    /// write the sequence in lower case
    #[serde(default, skip_serializing_if = "std::ops::Not::not")]
    pub lower: bool,
}
mod records_as_text {
    use serde::{Deserialize, Deserializer, Serialize, Serializer};
    pub fn serialize<S: Serializer>(v: &[(String, Vec<u8>)], s: S) -> Result<S::Ok, S::Error> {
        let t: Vec<(String, String)> = v
            .iter()
            .map(|(a, b)| (a.clone(), String::from_utf8_lossy(b).to_string()))
            .collect();
        t.serialize(s)
    }
    pub fn deserialize<'de, D: Deserializer<'de>>(d: D) -> Result<Vec<(String, Vec<u8>)>, D::Error> {
        let t: Vec<(String, String)> = Vec::deserialize(d)?;
        Ok(t.into_iter().map(|(a, b)| (a, b.into_bytes())).collect())
    }
}

impl Sample {
    pub fn fasta(&self) -> String {
        self.records
            .iter()
            .map(|(id, s)| wrap_fasta(id, s, self.wrap))
            .collect()
    }
    pub fn file(&self) -> String {
        self.path.clone().unwrap_or_else(|| format!("{}.fa", self.name))
    }
    /// the bytes of the sample's sequence file (gzip-compressed when the path says so)
    pub fn bytes(&self) -> Vec<u8> {
        let mut text = self.fasta();
        if self.lower {
            text = text.lines().map(|l| if l.starts_with('>') { l.to_string() } else { l.to_ascii_lowercase() }).collect::<Vec<_>>().join("\n") + "\n";
        }
        if self.file().ends_with(".gz") {
            use std::io::Write;
            let mut e = flate2::write::GzEncoder::new(Vec::new(), flate2::Compression::default());
            e.write_all(text.as_bytes()).expect("gzip");
            e.finish().expect("gzip")
        } else {
            text.into_bytes()
        }
    }
    pub fn total_len(&self) -> usize {
        self.records.iter().map(|r| r.1.len()).sum()
    }
}

#[derive(Clone, Debug)]
pub struct GenomeOpts {
    pub len: usize,
    pub snp_sites: usize,
    pub private_snps: usize,
    pub deletions: bool,
    pub n_runs: bool,
    pub repeats: bool,
    pub palindromes: bool,
    pub revcomp_records: bool,
    /// a run of k+2 A's: the split k-mer whose packed value is 0
    pub poly_a: bool,
    /// paralogs: a stretch of 2k-3..3k bases copied elsewhere, the copy differing in its middle base
    pub long_repeats: bool,
}
impl GenomeOpts {
    pub fn swarm(rng: &mut Rng, k: usize) -> GenomeOpts {
        let min_len = 3 * k + 10;
        let extra = [40, 120, 300, 500][rng.below(4)];
        GenomeOpts {
            len: rng.range(min_len, min_len + extra),
            snp_sites: rng.below(8),
            private_snps: rng.below(3),
            deletions: rng.chance(50),
            n_runs: rng.chance(35),
            repeats: rng.chance(45),
            palindromes: rng.chance(35),
            revcomp_records: rng.chance(40),
            poly_a: rng.chance(10),
            long_repeats: false,
        }
    }
    pub fn plain(len: usize) -> GenomeOpts {
        GenomeOpts {
            len,
            snp_sites: 3,
            private_snps: 1,
            deletions: false,
            n_runs: false,
            repeats: false,
            palindromes: false,
            revcomp_records: false,
            poly_a: false,
            long_repeats: false,
        }
    }
}

fn other_base(rng: &mut Rng, b: u8) -> u8 {
    loop {
        let x = rng.base();
        if x != b {
            return x;
        }
    }
}

/// `n` related samples derived from one ancestor. Shared variable sites give columns with
/// several alleles, deletions give gaps, repeats with a changed middle base give ambiguity codes,
/// planted X+b+revcomp(X) give self-complementary split k-mers (W/S), N runs break windows.
pub fn gen_samples(rng: &mut Rng, n: usize, k: usize, o: &GenomeOpts, prefix: &str) -> Vec<Sample> {
    let half = (k - 1) / 2;
    let mut anc = rng.dna(o.len);
    if o.poly_a && o.len > k + 6 {
        let at = rng.range(1, o.len - k - 3);
        for b in &mut anc[at..at + k + 2] {
            *b = b'A';
        }
    }
    if o.palindromes && o.len > 2 * k + 4 {
        // X + b + revcomp(X): both arms of the split k-mer are each other's reverse complement
        let at = rng.range(1, o.len - k - 1);
        let x = rng.dna(half);
        let mut p = x.clone();
        p.push(rng.base());
        p.extend(revcomp(&x));
        anc[at..at + k].copy_from_slice(&p);
    }
    // repeats: copy a window elsewhere and change its middle base: same split k-mer, two middle
    // bases -> an ambiguity code. Some copies are planted per sample (below), so that a row holds a
    // mix of plain bases and ambiguity codes across samples.
    let mut sample_repeats: Vec<(usize, Vec<u8>)> = vec![];
    if o.repeats && o.len > 3 * k + 6 {
        for r in 0..rng.range(1, 4) {
            let from = rng.range(0, o.len - k - 1);
            let w: Vec<u8> = anc[from..from + k].to_vec();
            let to = rng.range(0, o.len - k - 1);
            if to + k <= from || from + k <= to {
                let mut w2 = w.clone();
                w2[half] = other_base(rng, w[half]);
                if r == 0 {
                    anc[to..to + k].copy_from_slice(&w2);
                } else {
                    sample_repeats.push((to, w2));
                }
            }
        }
    }
    if o.long_repeats && o.len > 8 * k {
        for _ in 0..rng.range(1, 2) {
            let l = rng.range(2 * k - 3, 3 * k);
            let from = rng.range(0, o.len - l - 1);
            let to = rng.range(0, o.len - l - 1);
            if to + l <= from || from + l <= to {
                let mut w: Vec<u8> = anc[from..from + l].to_vec();
                if rng.chance(70) {
                    w[l / 2] = other_base(rng, w[l / 2]);
                }
                anc[to..to + l].copy_from_slice(&w);
            }
        }
    }
    let mut sites: Vec<usize> = (0..o.snp_sites).map(|_| rng.below(o.len)).collect();
    if !sites.is_empty() && rng.chance(35) {
        // some sites get a partner exactly k-2 .. k+1 bases further on: the window after the first
        // is then the window before the second, or misses / overlaps it by one base
        let mut partners = vec![];
        for &p in &sites {
            if rng.chance(40) {
                let d = [k - 2, k - 1, k, k + 1][rng.below(4)];
                if p + d < o.len {
                    partners.push(p + d);
                }
            }
        }
        sites.extend(partners);
    }
    let mut out = vec![];
    for i in 0..n {
        let mut s = anc.clone();
        for (to, w2) in &sample_repeats {
            if rng.chance(50) {
                s[*to..*to + k].copy_from_slice(w2);
            }
        }
        for &p in &sites {
            if rng.chance(45) {
                // few alleles per site so that columns are shared between samples
                s[p] = b"ACGT"[(anc[p] as usize + 1 + rng.below(2)) % 4];
            }
        }
        for _ in 0..o.private_snps {
            let p = rng.below(s.len());
            s[p] = other_base(rng, s[p]);
        }
        if o.deletions && rng.chance(50) && s.len() > 2 * k + 20 {
            let l = rng.range(1, k + 5);
            let at = rng.range(0, s.len() - l - 1);
            s.drain(at..at + l);
        }
        if o.n_runs && rng.chance(50) {
            let l = rng.range(1, 3);
            let at = rng.range(0, s.len() - l - 1);
            for b in &mut s[at..at + l] {
                *b = b'N';
            }
        }
        let mut records = vec![];
        // 1..3 records, each long enough to hold at least one window of k+1 valid bases
        let mut rest = s;
        let mut c = 0;
        while rest.len() > 2 * (k + 3) && c < 2 && rng.chance(30) {
            let cut = rng.range(k + 3, rest.len() - (k + 3));
            let tail = rest.split_off(cut);
            records.push((format!("c{c}"), rest));
            rest = tail;
            c += 1;
        }
        records.push((format!("c{c}"), rest));
        if o.long_repeats && records.len() > 1 && rng.chance(35) {
            let gone = rng.below(records.len());
            records.remove(gone);
        }
        if o.revcomp_records {
            for r in records.iter_mut() {
                if rng.chance(40) {
                    r.1 = revcomp(&r.1);
                }
            }
        }
        out.push(Sample {
            name: format!("{prefix}{i}"),
            records,
            wrap: *rng.pick(&[0usize, 0, 60, 70, 33]),
            path: None,
            lower: false,
        });
    }
    out
}

/// C09's corner. A split k-mer occupies 2(k-1) bits, so for k >= 35 it fits in 64 bits iff its
/// window starts with >= k-33 A's (A encodes 0). Records A^a + random tail of length t <= 33 with
/// a >= k-33: window i starts with a-i A's and the last window (i = a+t-k) still has k-t >= k-33.
/// With both strands the canonical form is the smaller of the two, so it fits as well.
pub fn fits64_records(rng: &mut Rng, k: usize) -> Vec<(String, Vec<u8>)> {
    let nrec = rng.range(2, 6);
    (0..nrec)
        .map(|i| {
            let t = rng.range(20, 33);
            let a = (k - 33).max(k + 1 - t) + rng.below(6);
            let mut s = vec![b'A'; a];
            s.extend(rng.dna(t));
            (format!("f{i}"), s)
        })
        .collect()
}

/// fits64 sample family: records shared between samples with an occasional changed base
pub fn gen_fits64_samples(rng: &mut Rng, n: usize, k: usize, prefix: &str) -> Vec<Sample> {
    let base = fits64_records(rng, k);
    (0..n)
        .map(|i| {
            let mut records = base.clone();
            for r in records.iter_mut() {
                if rng.chance(40) {
                    let p = rng.range(r.1.len() - 20, r.1.len() - 1);
                    r.1[p] = other_base(rng, r.1[p]);
                }
            }
            if rng.chance(40) {
                records.extend(fits64_records(rng, k).into_iter().take(1).map(|(id, s)| (format!("{id}x{i}"), s)));
            }
            Sample {
                name: format!("{prefix}{i}"),
                records,
                wrap: 0,
                path: None,
                lower: false,
            }
        })
        .collect()
}

/// a piece of sequence to weed: cut from a sample (or unrelated), at least k+2 valid bases
pub fn gen_weed_fasta(rng: &mut Rng, samples: &[Sample], k: usize) -> String {
    let mut out = String::new();
    let nrec = rng.range(1, 3);
    // FASTA ids need not be unique: sometimes every record has the same first word
    let same_id = rng.chance(25);
    for i in 0..nrec {
        let mode = rng.below(10);
        let seq: Vec<u8> = if mode == 0 {
            let l = k + 2 + rng.below(40);
            rng.dna(l) // matches (almost surely) nothing
        } else {
            let s = rng.pick(samples);
            let r = &rng.pick(&s.records).1;
            if r.len() <= k + 3 {
                r.clone()
            } else if mode == 1 {
                r.clone() // a whole record
            } else {
                let l = rng.range(k + 2, r.len().min(k + 2 + 80));
                let at = rng.range(0, r.len() - l);
                r[at..at + l].to_vec()
            }
        };
        let mut seq = if rng.chance(35) { revcomp(&seq) } else { seq };
        if rng.chance(20) && seq.len() > 2 * k + 6 {
            // N in the middle, near the record start, near its end, or two N's less than k apart
            match rng.below(5) {
                0 => {
                    let at = rng.range(1, k - 1);
                    seq[at] = b'N';
                }
                1 => {
                    let at = seq.len() - 1 - rng.range(1, k - 1);
                    seq[at] = b'N';
                }
                2 => {
                    let at = rng.range(1, seq.len() - k - 1);
                    seq[at] = b'N';
                    let d = rng.range(1, k - 1);
                    seq[at + d] = b'N';
                }
                _ => {
                    let at = rng.range(k + 2, seq.len() - k - 3);
                    seq[at] = b'N';
                }
            }
        }
        // guarantee a window of k+1 valid bases (an all-N or too-short file is refused by ska)
        if !seq.windows(k + 2).any(|w| w.iter().all(|b| *b != b'N')) {
            seq = rng.dna(k + 2);
        }
        let id = if same_id { format!("plasmid part{i}") } else { format!("w{i}") };
        out.push_str(&wrap_fasta(&id, &seq, *rng.pick(&[0usize, 60])));
    }
    out
}

/// paired FASTQ files (forward, reverse) sampled from `genome`: reads of `len` bases at the given
/// coverage, either strand, a few substitution errors with low quality
pub fn simulate_reads(rng: &mut Rng, genome: &[u8], coverage: usize, len: usize) -> (String, String) {
    let len = len.min(genome.len());
    let nreads = (coverage * genome.len() / len).max(4);
    let (mut f, mut r) = (String::new(), String::new());
    for i in 0..nreads {
        let at = rng.below(genome.len() - len + 1);
        let mut seq = genome[at..at + len].to_vec();
        if rng.chance(50) {
            seq = revcomp(&seq);
        }
        let mut qual = vec![b'I'; len];
        for j in 0..len {
            if seq[j] == b'N' {
                qual[j] = b'#';
            } else if rng.next_u64() % 200 == 0 {
                seq[j] = other_base(rng, seq[j]);
                qual[j] = *rng.pick(&[b'#', b'+', b'5', b'I']);
            } else if rng.next_u64() % 40 == 0 {
                qual[j] = *rng.pick(&[b'5', b'+', b'?']);
            }
        }
        let rec = format!("@read{i}\n{}\n+\n{}\n", String::from_utf8_lossy(&seq), String::from_utf8_lossy(&qual));
        if i % 2 == 0 {
            f.push_str(&rec)
        } else {
            r.push_str(&rec)
        }
    }
    (f, r)
}

/// Unusual but legal ways of storing some samples' sequence files: a sub-directory, `.fasta` /
/// upper-case extensions, dots in the stem, gzip, lower-case sequence. Paths are chosen so that the
/// sample name ska derives from the path equals `name` (a `.fa.gz` file keeps its whole file name
/// as sample name, as ska's name pattern leaves it).
pub fn vary_paths(rng: &mut Rng, samples: &mut [Sample]) {
    for s in samples.iter_mut() {
        if s.name.contains(char::is_whitespace) {
            continue;
        }
        match rng.below(12) {
            0 => s.path = Some(format!("d1/{}.fa", s.name)),
            1 => s.path = Some(format!("{}.fasta", s.name)),
            2 => s.path = Some(format!("{}.FA", s.name)),
            3 => s.path = Some(format!("d1/d2/{}.Fasta", s.name)),
            4 => {
                s.name = format!("{}.v2", s.name);
                s.path = Some(format!("{}.fa", s.name));
            }
            5 => {
                s.name = format!("{}.fa.gz", s.name);
                s.path = Some(s.name.clone());
            }
            6 => s.lower = true,
            _ => {}
        }
    }
}
