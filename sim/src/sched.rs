//! `sched` workload (C11): the same logical command under many (threads, cores, hash seed,
//! schedule policy, hook subset) points, compared with the single-threaded single-core run.

use std::collections::BTreeMap;

use serde::{Deserialize, Serialize};
use serde_json::{json, Value};

use crate::framework::{Ctx, Outcome, Tier, Workload};
use crate::gen::{gen_samples, GenomeOpts, Sample};
use crate::model::{self, columns, inspect, parse_fasta, SiteFilter};
use crate::procsim::{probe, run_proc, HarnessError, Proc, ProcOut};
use crate::util::{revcomp, Rng};

#[derive(Clone, Debug, Serialize, Deserialize, PartialEq)]
pub struct Sim {
    pub seed: u64,
    pub cores: usize,
    pub policy: String,
    pub hooks: u32,
    /// explicit scheduler decision list (task chosen at each switch point / PRNG draw); when
    /// present it replaces the policy, and past its end the lowest runnable task is chosen
    #[serde(default, skip_serializing_if = "Option::is_none")]
    pub decisions: Option<Vec<u64>>,
}
impl Sim {
    pub fn plain(seed: u64) -> Sim {
        Sim {
            seed,
            cores: 1,
            policy: "uniform".into(),
            hooks: 0,
            decisions: None,
        }
    }
    pub fn varied(rng: &mut Rng) -> Sim {
        let p = Proc::varied(vec![], rng);
        Sim {
            seed: p.seed,
            cores: p.cores,
            policy: p.policy,
            hooks: p.hooks,
            decisions: None,
        }
    }
    pub fn proc(&self, argv: Vec<String>) -> Proc {
        Proc {
            argv,
            seed: self.seed,
            cores: self.cores,
            policy: self.policy.clone(),
            hooks: self.hooks,
            fsize: None,
            fsize_error: false,
            decisions: self.decisions.clone(),
        }
    }
}

#[derive(Clone, Debug, Serialize, Deserialize, PartialEq)]
pub struct AlignOpts {
    pub min_freq: String,
    pub filter: SiteFilter,
    pub ambig_missing: bool,
    pub ambig_mask: bool,
    pub no_gap_only: bool,
}
impl AlignOpts {
    pub fn random(rng: &mut Rng) -> AlignOpts {
        AlignOpts {
            min_freq: ["0", "0.5", "0.9", "1", "0.25"][rng.below(5)].to_string(),
            filter: SiteFilter::ALL[rng.below(4)],
            ambig_missing: rng.chance(30),
            ambig_mask: rng.chance(30),
            no_gap_only: rng.chance(30),
        }
    }
    pub fn args(&self) -> Vec<String> {
        let mut v = vec![
            "--min-freq".to_string(),
            self.min_freq.clone(),
            "--filter".to_string(),
            self.filter.cli().to_string(),
        ];
        if self.ambig_missing {
            v.push("--filter-ambig-as-missing".into());
        }
        if self.ambig_mask {
            v.push("--ambig-mask".into());
        }
        if self.no_gap_only {
            v.push("--no-gap-only-sites".into());
        }
        v
    }
}

#[derive(Clone, Debug, Serialize, Deserialize, PartialEq)]
pub enum SchedCmd {
    Build { list: bool },
    /// build from paired FASTQ files: `min_count` is a number or "auto"
    BuildFastq { min_count: String, min_qual: u8, qual_filter: String },
    AlignSkf(AlignOpts),
    AlignSeq(AlignOpts),
    MapSkf { vcf: bool, ambig_mask: bool, repeat_mask: bool },
    MapSeq { vcf: bool, ambig_mask: bool, repeat_mask: bool },
    Distance { min_freq: String, allow_ambig: bool },
    Lo { with_ref: bool, missing: String },
}
impl SchedCmd {
    pub fn kind(&self) -> &'static str {
        match self {
            SchedCmd::Build { list: false } => "build",
            SchedCmd::Build { list: true } => "build-list",
            SchedCmd::BuildFastq { .. } => "build-fastq",
            SchedCmd::AlignSkf(_) => "align-skf",
            SchedCmd::AlignSeq(_) => "align-seq",
            SchedCmd::MapSkf { vcf: false, .. } => "map-skf-aln",
            SchedCmd::MapSkf { vcf: true, .. } => "map-skf-vcf",
            SchedCmd::MapSeq { vcf: false, .. } => "map-seq-aln",
            SchedCmd::MapSeq { vcf: true, .. } => "map-seq-vcf",
            SchedCmd::Distance { .. } => "distance",
            SchedCmd::Lo { with_ref: true, .. } => "lo-ref",
            SchedCmd::Lo { with_ref: false, .. } => "lo",
        }
    }
    fn needs_skf(&self) -> bool {
        matches!(
            self,
            SchedCmd::AlignSkf(_) | SchedCmd::MapSkf { .. } | SchedCmd::Distance { .. } | SchedCmd::Lo { .. }
        )
    }
}

#[derive(Clone, Debug, Serialize, Deserialize, PartialEq)]
pub struct SchedCase {
    /// paired read files per sample (forward, reverse) for builds from FASTQ
    #[serde(default, skip_serializing_if = "Option::is_none")]
    pub fastq: Option<Vec<(String, String)>>,
    /// sample names written into the `-f` list file when they differ from the file stems (used to
    /// give two samples the same name, which ska allows)
    #[serde(default, skip_serializing_if = "Option::is_none")]
    pub list_names: Option<Vec<String>>,
    pub k: usize,
    pub single_strand: bool,
    pub samples: Vec<Sample>,
    pub reference: Option<Sample>,
    pub cmd: SchedCmd,
    pub base: Sim,
    /// (threads, simulation parameters)
    pub variants: Vec<(usize, Sim)>,
}

thread_local! {
    pub static LAST_RECORDED: std::cell::RefCell<Option<Vec<u64>>> = const { std::cell::RefCell::new(None) };
}

/// Schedule minimisation shared by the workloads whose cases carry `(threads, Sim)` variants:
/// with one variant left, record its decision list (`record` executes the case with recording on
/// and returns the list of the last simulated process), then cut the list by bisection to the
/// shortest prefix for which `fails` still holds.
pub fn minimise_schedule<C: Clone>(
    c: &C,
    sim_of: impl Fn(&mut C) -> Option<&mut Sim>,
    record: impl Fn(&C) -> Option<Vec<u64>>,
    fails: impl Fn(&C) -> bool,
) -> C {
    std::env::set_var("SKASIM_RECORD_ALL", "1");
    let rec = record(c);
    std::env::remove_var("SKASIM_RECORD_ALL");
    let Some(full) = rec else { return c.clone() };
    let with = |d: Vec<u64>| -> Option<C> {
        let mut x = c.clone();
        sim_of(&mut x)?.decisions = Some(d);
        Some(x)
    };
    let Some(all) = with(full.clone()) else { return c.clone() };
    if !fails(&all) {
        return c.clone();
    }
    let (mut lo, mut hi) = (0usize, full.len());
    while lo < hi {
        let mid = (lo + hi) / 2;
        if with(full[..mid].to_vec()).map(|x| fails(&x)).unwrap_or(false) {
            hi = mid;
        } else {
            lo = mid + 1;
        }
    }
    match with(full[..hi].to_vec()) {
        Some(best) if fails(&best) => best,
        _ => all,
    }
}

pub struct SchedWorkload {
    /// restrict to some command kinds (None = all)
    pub only: Option<Vec<&'static str>>,
}

fn complement_col(c: &[u8]) -> Vec<u8> {
    c.iter()
        .map(|b| match b {
            b'A' => b'T',
            b'T' => b'A',
            b'C' => b'G',
            b'G' => b'C',
            x => *x,
        })
        .collect()
}

/// reference-free `lo` SNP alignment: columns up to order and strand
pub fn lo_columns_canonical(fas: &[u8]) -> Result<(Vec<String>, Vec<Vec<u8>>), String> {
    let (names, seqs) = parse_fasta(fas)?;
    let cols = columns(&seqs)?;
    let mut v: Vec<Vec<u8>> = cols
        .into_iter()
        .map(|c| {
            let cc = complement_col(&c);
            if cc < c {
                cc
            } else {
                c
            }
        })
        .collect();
    v.sort();
    Ok((names, v))
}

/// reference-free indel VCF up to order, strand, left/right alignment and allele naming:
/// per record the genotype vector up to swapping 0 and 1, and the length difference of the alleles
pub fn indel_records_weak(vcf: &[u8]) -> Vec<(usize, Vec<String>)> {
    let mut out = vec![];
    for line in String::from_utf8_lossy(vcf).lines() {
        if line.starts_with('#') || line.trim().is_empty() {
            continue;
        }
        let f: Vec<&str> = line.split('\t').collect();
        if f.len() < 10 {
            out.push((usize::MAX, vec![line.to_string()]));
            continue;
        }
        let l = |a: &str| if a == "-" { 0 } else { a.len() };
        let d = (l(f[3]) as i64 - l(f[4]) as i64).unsigned_abs() as usize;
        let calls: Vec<String> = f[9..].iter().map(|s| s.to_string()).collect();
        let swapped: Vec<String> = calls
            .iter()
            .map(|c| match c.as_str() {
                "0" => "1".to_string(),
                "1" => "0".to_string(),
                x => x.to_string(),
            })
            .collect();
        out.push((d, if swapped < calls { swapped } else { calls }));
    }
    out.sort();
    out
}

impl SchedWorkload {
    /// execute with recording on and return the decision list of the last simulated process
    fn execute_recording(&self, c: &SchedCase, ctx: &mut Ctx) -> Option<Vec<u64>> {
        LAST_RECORDED.with(|l| *l.borrow_mut() = None);
        let _ = self.execute(c, ctx);
        LAST_RECORDED.with(|l| l.borrow_mut().take())
    }
    fn gen_variants(rng: &mut Rng, n: usize, max_threads: usize) -> Vec<(usize, Sim)> {
        (0..n)
            .map(|i| {
                let t = match i {
                    0 => 2,
                    1 => rng.range(3, 4),
                    _ => rng.range(1, max_threads),
                };
                (t, Sim::varied(rng))
            })
            .collect()
    }
}

impl Workload for SchedWorkload {
    type Case = SchedCase;
    fn property(&self) -> &'static str {
        "C11"
    }
    fn name(&self) -> &'static str {
        "sched"
    }
    fn rule(&self) -> String {
        "one run = one logical ska command (build/align/map/distance/lo; .skf or sequence-file input) executed once as the reference (threads 1, 1 core) and then under several (threads 1..16, cores 1..16, hash seed, scheduler policy, hook subset) points; outputs compared as C11 words it. Non-trivial = the reference succeeded and at least one variant process had more than one runnable task at some scheduler step or a different hash seed; distinct = distinct hash of (command, inputs, variant parameters)".into()
    }
    fn assumptions(&self) -> Vec<String> {
        vec![
            "schedules are those of the simulated work-stealing core (rayon-core stub) with switch points at deque operations, latches, task starts, between the items of par_bridge, before every dashmap operation and at the verif-hooks sites; dashmap internals and code between two such points run atomically".into(),
            "release profile (overflow checks off) as shipped".into(),
            "the simulated core count stands for the machine; num_cpus::get() (used only for a warning) is the real one".into(),
        ]
    }
    fn generate(&self, seed: u64, _index: u64, tier: Tier) -> SchedCase {
        let mut rng = Rng::new(seed);
        let kinds: Vec<&'static str> = match &self.only {
            Some(v) => v.clone(),
            None => vec![
                "build", "build", "build-list", "build-fastq", "align-skf", "align-seq", "map-skf", "map-skf", "map-seq",
                "map-seq", "distance", "distance", "lo", "lo", "lo-ref", "lo-ref",
            ],
        };
        let kind = *rng.pick(&kinds);
        let nvar = if tier == Tier::Quick { rng.range(4, 6) } else { rng.range(6, 10) };
        let base = Sim::plain(rng.next_u64() >> 1);
        match kind {
            "build-fastq" => {
                let k = *rng.pick(&[15usize, 17, 21, 31, 33]);
                let n = rng.range(2, 3);
                let mut o = GenomeOpts::plain(rng.range(300, 600));
                o.snp_sites = 5;
                let samples = gen_samples(&mut rng, n, k, &o, "r");
                let fastq = samples
                    .iter()
                    .map(|s| {
                        let g: Vec<u8> = s.records.iter().flat_map(|r| r.1.clone()).collect();
                        crate::gen::simulate_reads(&mut rng, &g, 25, 70)
                    })
                    .collect();
                SchedCase {
                    fastq: Some(fastq),
                    list_names: None,
                    k,
                    single_strand: false,
                    samples,
                    reference: None,
                    cmd: SchedCmd::BuildFastq {
                        min_count: ["auto", "auto", "2", "3", "5"][rng.below(5)].to_string(),
                        min_qual: [0u8, 10, 20][rng.below(3)],
                        qual_filter: ["no-filter", "middle", "strict"][rng.below(3)].to_string(),
                    },
                    base,
                    variants: Self::gen_variants(&mut rng, 3, 8),
                }
            }
            "build" | "build-list" => {
                let k = crate::gen::pick_k(&mut rng);
                // both sides of the 10-samples-per-thread rule at depth 1 and 2
                // depth d of the recursive split needs min(threads, 1 + n/10) >= 2^d
                let n = match rng.below(16) {
                    0 | 1 => rng.range(2, 6),
                    2 | 3 => rng.range(9, 11),
                    4..=7 => rng.range(19, 22),
                    8..=12 => rng.range(39, 42),
                    13 | 14 => rng.range(69, 74), // depth 3 with >= 8 threads
                    _ => rng.range(149, 153),    // depth 4 with 16 threads
                };
                let big = n >= 69;
                let mut o = GenomeOpts::plain(if big { rng.range(k + 8, k + 30) } else { rng.range(k + 20, k + 90) });
                o.deletions = rng.chance(50);
                o.repeats = rng.chance(30);
                let mut samples = gen_samples(&mut rng, n, k, &o, "s");
                if rng.chance(30) {
                    crate::gen::vary_paths(&mut rng, &mut samples);
                }
                // two samples with the same name (e.g. */contigs.fa from two directories), one in each
                // half of the list
                let list_names = if kind == "build-list" && n >= 4 && rng.chance(25) {
                    let mut names: Vec<String> = samples.iter().map(|s| s.name.clone()).collect();
                    let (i, j) = (rng.below(n / 2), n / 2 + rng.below(n - n / 2));
                    names[j] = names[i].clone();
                    Some(names)
                } else {
                    None
                };
                SchedCase {
                    fastq: None,
                    list_names,
                    k,
                    single_strand: rng.chance(30),
                    samples,
                    reference: None,
                    cmd: SchedCmd::Build { list: kind == "build-list" },
                    base,
                    variants: {
                        let mut v = Self::gen_variants(&mut rng, if big { 3 } else { nvar }, 16);
                        if big {
                            // the thread counts that reach the deepest split for this n
                            v[0].0 = 8;
                            v[1].0 = 16;
                        }
                        v
                    },
                }
            }
            "align-skf" | "align-seq" | "distance" | "map-skf" | "map-seq" => {
                let seq_input = kind.ends_with("-seq");
                let k = if seq_input { 17 } else { crate::gen::pick_k(&mut rng) };
                // (.skf input: a quarter of the cases with 9..24 samples, so that any way of cutting samples
                // or pairs into per-thread blocks meets remainders of every size)
                let n = if seq_input && rng.chance(30) {
                    rng.range(19, 22)
                } else if !seq_input && rng.chance(25) {
                    rng.range(9, 24)
                } else {
                    rng.range(2, 8)
                };
                let mut o = GenomeOpts::swarm(&mut rng, k);
                if n > 10 {
                    o.len = o.len.min(3 * k + 60);
                }
                // now and then a genome much longer than any block size someone might choose
                let long = kind.starts_with("map") && n <= 4 && rng.chance(6);
                if long {
                    o.len = rng.range(9000, 20000);
                    o.snp_sites = rng.range(20, 80);
                }
                let mut all = gen_samples(&mut rng, n + 1, k, &o, "s");
                let mut r = all.pop().unwrap();
                r.name = "ref".into();
                if rng.chance(30) {
                    crate::gen::vary_paths(&mut rng, &mut all);
                }
                if n >= 3 && rng.chance(10) {
                    // two samples of the same name (the same file name in two directories)
                    let i = rng.below(n);
                    let j = (i + 1 + rng.below(n - 1)) % n;
                    for (x, d) in [(i, "run1"), (j, "run2")] {
                        all[x].name = "isolate".into();
                        all[x].path = Some(format!("{d}/isolate.fa"));
                    }
                }
                let cmd = match kind {
                    "align-skf" => SchedCmd::AlignSkf(AlignOpts::random(&mut rng)),
                    "align-seq" => SchedCmd::AlignSeq(AlignOpts::random(&mut rng)),
                    "distance" => SchedCmd::Distance {
                        min_freq: ["0", "0", "0.5", "1"][rng.below(4)].to_string(),
                        allow_ambig: rng.chance(40),
                    },
                    "map-skf" => SchedCmd::MapSkf {
                        vcf: rng.chance(50),
                        ambig_mask: rng.chance(30),
                        repeat_mask: rng.chance(30),
                    },
                    _ => SchedCmd::MapSeq {
                        vcf: rng.chance(50),
                        ambig_mask: rng.chance(30),
                        repeat_mask: rng.chance(30),
                    },
                };
                let is_map = kind.starts_with("map");
                SchedCase {
                    fastq: None,
                    list_names: None,
                    k,
                    single_strand: !seq_input && rng.chance(30),
                    samples: all,
                    reference: if is_map { Some(r) } else { None },
                    cmd,
                    base,
                    variants: Self::gen_variants(&mut rng, nvar, 16),
                }
            }
            _ => {
                // lo / lo-ref
                let with_ref = kind == "lo-ref";
                let k = if with_ref {
                    *rng.pick(&[15usize, 17, 21, 25, 31])
                } else {
                    *rng.pick(&[9usize, 11, 15, 17, 21, 31])
                };
                let n = rng.range(3, 8);
                let mut o = GenomeOpts::swarm(&mut rng, k);
                o.len = rng.range(6 * k, 6 * k + if tier == Tier::Quick { 250 } else { 700 });
                o.snp_sites = rng.range(2, 10);
                o.long_repeats = rng.chance(35);
                if o.long_repeats {
                    o.len += 4 * k;
                    o.snp_sites += 4;
                }
                o.n_runs = false;
                o.revcomp_records = rng.chance(30);
                let mut all = gen_samples(&mut rng, n + 1, k, &o, "s");
                let mut r = all.pop().unwrap();
                // `lo -r` wants exactly one reference sequence
                let joined: Vec<u8> = r.records.iter().flat_map(|x| x.1.clone()).collect();
                r.records = vec![("chr".into(), joined)];
                r.name = "ref".into();
                SchedCase {
                    fastq: None,
                    list_names: None,
                    k,
                    // lo accepts single-strand files too (a k-mer and its reverse complement can then
                    // both be rows of the table)
                    single_strand: rng.chance(30),
                    samples: all,
                    reference: if with_ref { Some(r) } else { None },
                    cmd: SchedCmd::Lo {
                        with_ref,
                        missing: ["0.1", "0.3", "0.5", "0"][rng.below(4)].to_string(),
                    },
                    base,
                    variants: Self::gen_variants(&mut rng, nvar.min(5), 8),
                }
            }
        }
    }

    fn execute(&self, c: &SchedCase, ctx: &mut Ctx) -> Result<Outcome, HarnessError> {
        let dir = &ctx.dir;
        let kind = c.cmd.kind();
        let mut log = vec![format!("case {kind} k={} n={} variants={}", c.k, c.samples.len(), c.variants.len())];
        let mut out = Outcome::default();
        for s in &c.samples {
            dir.write(&s.file(), &s.bytes());
        }
        if let Some(r) = &c.reference {
            dir.write(&r.file(), &r.bytes());
        }
        if let Some(fq) = &c.fastq {
            let mut l = String::new();
            for (s, (f, r)) in c.samples.iter().zip(fq.iter()) {
                dir.write(&format!("{}_1.fastq", s.name), f.as_bytes());
                dir.write(&format!("{}_2.fastq", s.name), r.as_bytes());
                l.push_str(&format!("{}\t{}_1.fastq\t{}_2.fastq\n", s.name, s.name, s.name));
            }
            dir.write("reads.txt", l.as_bytes());
        }
        let files: Vec<String> = c.samples.iter().map(|s| s.file()).collect();
        let list: String = c
            .samples
            .iter()
            .enumerate()
            .map(|(i, s)| format!("{}\t{}\n", c.list_names.as_ref().and_then(|l| l.get(i)).unwrap_or(&s.name), s.file()))
            .collect();
        dir.write("list.txt", list.as_bytes());
        let mut build_args = |outp: &str, threads: usize, use_list: bool| -> Vec<String> {
            let mut a = vec!["build".to_string(), "-o".into(), outp.into(), "-k".into(), c.k.to_string()];
            if c.single_strand {
                a.push("--single-strand".into());
            }
            a.push("--threads".into());
            a.push(threads.to_string());
            if use_list {
                a.push("-f".into());
                a.push("list.txt".into());
            } else {
                a.extend(files.iter().cloned());
            }
            a
        };
        if c.cmd.needs_skf() {
            let p = c.base.proc(build_args("in", 1, false));
            let r = run_proc(dir, &p, &mut log)?;
            if !r.ok() {
                // inputs ska refuses (e.g. no valid k-mer): nothing to compare
                out.log = log;
                return Ok(out);
            }
        }
        // the command line for a given thread count and output tag
        let cmdline = |threads: usize, tag: &str| -> Vec<String> {
            let t = vec!["--threads".to_string(), threads.to_string()];
            match &c.cmd {
                SchedCmd::Build { list } => build_args(&format!("out_{tag}"), threads, *list),
                SchedCmd::BuildFastq { min_count, min_qual, qual_filter } => {
                    let mut a = vec!["build".to_string(), "-o".into(), format!("out_{tag}"), "-k".into(), c.k.to_string(), "-f".into(), "reads.txt".into()];
                    a.extend(["--min-count".to_string(), min_count.clone(), "--min-qual".into(), min_qual.to_string(), "--qual-filter".into(), qual_filter.clone()]);
                    a.extend(t);
                    a
                }
                SchedCmd::AlignSkf(o) => {
                    let mut a = vec!["align".to_string(), "in.skf".into()];
                    a.extend(o.args());
                    a.extend(t);
                    a
                }
                SchedCmd::AlignSeq(o) => {
                    let mut a = vec!["align".to_string()];
                    a.extend(files.iter().cloned());
                    a.extend(o.args());
                    a.extend(t);
                    a
                }
                SchedCmd::MapSkf { vcf, ambig_mask, repeat_mask }
                | SchedCmd::MapSeq { vcf, ambig_mask, repeat_mask } => {
                    let mut a = vec!["map".to_string(), "ref.fa".into()];
                    if matches!(c.cmd, SchedCmd::MapSkf { .. }) {
                        a.push("in.skf".into());
                    } else {
                        a.extend(files.iter().cloned());
                    }
                    a.push("-f".into());
                    a.push(if *vcf { "vcf" } else { "aln" }.into());
                    if *ambig_mask {
                        a.push("--ambig-mask".into());
                    }
                    if *repeat_mask {
                        a.push("--repeat-mask".into());
                    }
                    a.extend(t);
                    a
                }
                SchedCmd::Distance { min_freq, allow_ambig } => {
                    let mut a = vec!["distance".to_string(), "in.skf".into(), "--min-freq".into(), min_freq.clone()];
                    if *allow_ambig {
                        a.push("--allow-ambiguous".into());
                    }
                    a.extend(t);
                    a
                }
                SchedCmd::Lo { with_ref, missing } => {
                    let mut a = vec!["lo".to_string(), "in.skf".into(), format!("out_{tag}"), "-m".into(), missing.clone()];
                    if *with_ref {
                        a.push("-r".into());
                        a.push("ref.fa".into());
                    }
                    a.extend(t);
                    a
                }
            }
        };
        // what a user observes of one execution
        let observe = |tag: &str, r: &ProcOut| -> Result<BTreeMap<String, Vec<u8>>, String> {
            let mut m = BTreeMap::new();
            match &c.cmd {
                SchedCmd::Build { .. } | SchedCmd::BuildFastq { .. } => {
                    let i = inspect(&dir.p(&format!("out_{tag}.skf")))?;
                    if i.duplicate_kmers > 0 || i.all_gap_rows > 0 {
                        return Err(format!("malformed table: {} duplicate k-mers, {} empty rows", i.duplicate_kmers, i.all_gap_rows));
                    }
                    m.insert("table".into(), serde_json::to_vec(&i.table).unwrap());
                }
                SchedCmd::AlignSkf(_) | SchedCmd::AlignSeq(_) => {
                    let (names, seqs) = parse_fasta(&r.stdout)?;
                    let cols = columns(&seqs)?;
                    m.insert("names".into(), format!("{names:?}").into_bytes());
                    m.insert("columns".into(), serde_json::to_vec(&cols).unwrap());
                }
                SchedCmd::MapSkf { .. } | SchedCmd::MapSeq { .. } | SchedCmd::Distance { .. } => {
                    m.insert("stdout".into(), r.stdout.clone());
                }
                SchedCmd::Lo { with_ref: true, .. } => {
                    for suffix in ["_snps.fas", "_snps.vcf", "_pseudo_genomes.fas", "_indels.vcf"] {
                        let d = dir.read(&format!("out_{tag}{suffix}")).ok_or(format!("missing output {suffix}"))?;
                        m.insert(suffix.into(), d);
                    }
                }
                SchedCmd::Lo { with_ref: false, .. } => {
                    let d = dir.read(&format!("out_{tag}_snps.fas")).ok_or("missing _snps.fas")?;
                    let (names, cols) = lo_columns_canonical(&d)?;
                    m.insert("_snps.fas names".into(), format!("{names:?}").into_bytes());
                    m.insert("_snps.fas columns (up to order and strand)".into(), serde_json::to_vec(&cols).unwrap());
                    let v = dir.read(&format!("out_{tag}_indels.vcf")).ok_or("missing _indels.vcf")?;
                    m.insert(
                        "_indels.vcf records (up to order, strand and allele naming)".into(),
                        format!("{:?}", indel_records_weak(&v)).into_bytes(),
                    );
                }
            }
            Ok(m)
        };

        let mut ref_sim = Sim::plain(c.base.seed);
        ref_sim.cores = 1;
        let rref = run_proc(dir, &ref_sim.proc(cmdline(1, "ref")), &mut log)?;
        if !rref.ok() {
            probe("c11_reference_refused");
            log.push(format!("reference refused: {}", rref.stderr_tail()));
            out.log = log;
            return Ok(out);
        }
        let oref = match observe("ref", &rref) {
            Ok(o) => o,
            Err(e) => {
                // C11 is differential: a single-threaded run whose output this harness cannot read
                // gives nothing to compare with - no verdict
                probe("c11_reference_output_not_readable");
                log.push(format!("reference output not readable: {e}"));
                out.log = log;
                return Ok(out);
            }
        };
        for (vi, (threads, sim)) in c.variants.iter().enumerate() {
            let tag = format!("v{vi}");
            let r = run_proc(dir, &sim.proc(cmdline(*threads, &tag)), &mut log)?;
            if let Some(d) = &r.recorded {
                LAST_RECORDED.with(|l| *l.borrow_mut() = Some(d.clone()));
            }
            if let Some(s) = &r.stats {
                if s.multi_steps > 0 || sim.seed != ref_sim.seed {
                    out.nontrivial = true;
                }
                if s.steals > 0 {
                    probe("c11_variant_with_steal");
                }
                if s.hook_workers.get(1).copied().unwrap_or(0) > 1 {
                    probe("c11_par_bridge_items_on_more_than_one_worker");
                }
                if s.global_implicit {
                    probe("c11_global_pool_implicit");
                }
            }
            if let SchedCmd::Build { .. } = c.cmd {
                let maxt = usize::max(1, usize::min(*threads, 1 + c.samples.len() / 10));
                let depth = (maxt as f64).log2().floor() as usize;
                probe(&format!("c11_build_depth_{depth}"));
            }
            if r.sim_failed() {
                out.violation = Some((
                    format!("{kind}:deadlock-or-livelock"),
                    format!("threads={threads} {sim:?}: the simulated process deadlocked or hit the step cap: {}", r.stderr_tail()),
                ));
                break;
            }
            if !r.ok() {
                out.violation = Some((
                    format!("{kind}:fails-with-threads>1"),
                    format!(
                        "succeeds with --threads 1 but {} with --threads {threads} ({sim:?}): {}",
                        r.status_str(),
                        r.stderr_tail()
                    ),
                ));
                break;
            }
            match observe(&tag, &r) {
                Err(e) => {
                    out.violation = Some((format!("{kind}:variant-output-malformed"), format!("threads={threads} {sim:?}: {e}")));
                    break;
                }
                Ok(o) => {
                    let mut bad = None;
                    for (key, val) in &oref {
                        if o.get(key) != Some(val) {
                            bad = Some(key.clone());
                            break;
                        }
                    }
                    if let Some(key) = bad {
                        let a = String::from_utf8_lossy(&oref[&key]).to_string();
                        let b = o.get(&key).map(|v| String::from_utf8_lossy(v).to_string()).unwrap_or_default();
                        let first = a.lines().zip(b.lines()).find(|(x, y)| x != y);
                        out.violation = Some((
                            format!("{kind}:{} differs", key.split(' ').next().unwrap_or(&key)),
                            format!(
                                "{key} differs between --threads 1 (1 core) and --threads {threads} ({sim:?}); first differing line: {:?}",
                                first.map(|(x, y)| (x.chars().take(300).collect::<String>(), y.chars().take(300).collect::<String>()))
                            ),
                        ));
                        break;
                    }
                }
            }
        }
        let _ = model::is_acgt;
        let _ = revcomp;
        out.log = log;
        Ok(out)
    }

    fn shrink(&self, c: &SchedCase) -> Vec<SchedCase> {
        let mut v = vec![];
        // one variant at a time
        if c.variants.len() > 1 {
            for i in 0..c.variants.len() {
                let mut d = c.clone();
                d.variants = vec![c.variants[i].clone()];
                v.push(d);
            }
        }
        // fewer samples
        if c.samples.len() > 2 {
            let mut d = c.clone();
            d.samples.truncate(c.samples.len() / 2 + c.samples.len() % 2);
            if let Some(l) = d.list_names.as_mut() {
                l.truncate(d.samples.len());
            }
            if d.samples.len() >= 2 {
                v.push(d);
            }
            for i in 0..c.samples.len() {
                let mut d = c.clone();
                d.samples.remove(i);
                if let Some(l) = d.list_names.as_mut() {
                    if i < l.len() {
                        l.remove(i);
                    }
                }
                v.push(d);
            }
        }
        // shorter sequences
        for i in 0..c.samples.len() {
            if c.samples[i].records.len() > 1 {
                let mut d = c.clone();
                d.samples[i].records.pop();
                v.push(d);
            }
        }
        let minlen = c.k + 3;
        if c.samples.iter().any(|s| s.records.iter().any(|r| r.1.len() > 2 * minlen)) {
            for front in [true, false] {
                let mut d = c.clone();
                for s in d.samples.iter_mut() {
                    for r in s.records.iter_mut() {
                        if r.1.len() > 2 * minlen {
                            let h = r.1.len() / 2;
                            r.1 = if front { r.1[..h].to_vec() } else { r.1[h..].to_vec() };
                        }
                    }
                }
                v.push(d);
            }
        }
        // simpler simulation parameters
        for i in 0..c.variants.len() {
            let (t, s) = &c.variants[i];
            if *t > 2 {
                let mut d = c.clone();
                d.variants[i].0 = 2;
                v.push(d);
            }
            if s.cores > 2 {
                let mut d = c.clone();
                d.variants[i].1.cores = 2;
                v.push(d);
            }
            if s.policy != "uniform" {
                let mut d = c.clone();
                d.variants[i].1.policy = "uniform".into();
                v.push(d);
            }
            if s.hooks != 0 {
                let mut d = c.clone();
                d.variants[i].1.hooks = 0;
                v.push(d);
            }
            if s.seed > 9 {
                for ns in [0u64, 1, 2] {
                    let mut d = c.clone();
                    d.variants[i].1.seed = ns;
                    v.push(d);
                }
            }
        }
        v
    }

    /// schedule minimisation: replace the failing variant's (seed, policy) by its recorded decision
    /// list and cut that list to the shortest prefix that still fails the same way
    fn refine(&self, c: &SchedCase, signature: &str) -> SchedCase {
        if c.variants.len() != 1 {
            return c.clone();
        }
        let fails = |cand: &SchedCase| -> bool {
            let mut ctx = Ctx::new();
            matches!(self.execute(cand, &mut ctx), Ok(Outcome { violation: Some((ref s, _)), .. }) if s == signature)
        };
        // record
        std::env::set_var("SKASIM_RECORD_ALL", "1");
        let mut ctx = Ctx::new();
        let rec = self.execute_recording(c, &mut ctx);
        std::env::remove_var("SKASIM_RECORD_ALL");
        let Some(full) = rec else { return c.clone() };
        let with = |d: Vec<u64>| {
            let mut x = c.clone();
            x.variants[0].1.decisions = Some(d);
            x
        };
        if !fails(&with(full.clone())) {
            return c.clone();
        }
        // shortest failing prefix by bisection (failure need not be monotone: verify the result)
        let (mut lo, mut hi) = (0usize, full.len());
        while lo < hi {
            let mid = (lo + hi) / 2;
            if fails(&with(full[..mid].to_vec())) {
                hi = mid;
            } else {
                lo = mid + 1;
            }
        }
        let best = with(full[..hi].to_vec());
        if fails(&best) {
            best
        } else {
            with(full)
        }
    }

    fn sample_view(&self, c: &SchedCase) -> Value {
        json!({
            "command": c.cmd,
            "k": c.k,
            "single_strand": c.single_strand,
            "samples": c.samples.len(),
            "sample_lengths": c.samples.iter().map(|s| s.total_len()).collect::<Vec<_>>(),
            "variants": c.variants,
        })
    }
}
