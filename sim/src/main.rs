//! skasim: deterministic simulation harness for bacpop/ska.rust (see /verif/DESIGN.md)
mod child;
mod procsim;
mod simprog;
mod util;

fn main() {
    if std::env::var_os("SKASIM_CHILD").is_some() {
        child::child_main();
    }
    let args: Vec<String> = std::env::args().collect();
    match args.get(1).map(|s| s.as_str()) {
        Some("exec") => {
            // skasim exec SEED CORES POLICY HOOKS -- ska args   (debug aid; runs in the cwd)
            let seed: u64 = args[2].parse().unwrap();
            let cores: usize = args[3].parse().unwrap();
            let p = procsim::Proc {
                argv: args[7..].to_vec(),
                seed,
                cores,
                policy: args[4].clone(),
                hooks: args[5].parse().unwrap(),
                fsize: None,
                decisions: None,
            };
            let dir = procsim::RunDir { path: std::env::current_dir().unwrap() };
            let mut log = vec![];
            let r = procsim::run_proc(&dir, &p, &mut log);
            std::mem::forget(dir);
            match r {
                Ok(o) => {
                    print!("{}", String::from_utf8_lossy(&o.stdout));
                    eprint!("{}", String::from_utf8_lossy(&o.stderr));
                    eprintln!("{}", log.join("\n"));
                }
                Err(e) => eprintln!("harness error {}", e.0),
            }
        }
        _ => {
            eprintln!("usage: skasim check <ID> quick|thorough | replay <file> | selftest <name>");
            std::process::exit(2);
        }
    }
}
