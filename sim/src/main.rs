//! skasim: deterministic simulation harness for bacpop/ska.rust (see /verif/DESIGN.md)
mod child;
mod damage;
mod framework;
mod gen;
mod lo;
mod model;
mod persist;
mod procsim;
mod sched;
mod selftest;
mod store;
mod simprog;
mod util;

use framework::{BatchPlan, Tier};

/// SCHED_ONLY=lo,lo-ref restricts the command kinds (debug / focused sweeps)
fn c11_workload() -> sched::SchedWorkload {
    let only: Option<Vec<&'static str>> = std::env::var("SCHED_ONLY").ok().map(|s| {
        s.split(',').map(|x| &*Box::leak(x.to_string().into_boxed_str())).collect()
    });
    sched::SchedWorkload { only }
}

/// run `$body` with `$w` bound to the workload that decides property `$id`
macro_rules! with_workload {
    ($id:expr, $w:ident => $body:expr, $else:expr) => {
        match $id {
            "C11" => {
                let $w = c11_workload();
                $body
            }
            "C06" | "C07" | "C08" | "C10" | "C13" | "C14" => {
                let focus: &'static str = match $id {
                    "C06" => "C06",
                    "C07" => "C07",
                    "C08" => "C08",
                    "C10" => "C10",
                    "C13" => "C13",
                    _ => "C14",
                };
                let $w = store::StoreWorkload { focus };
                $body
            }
            "C09" => {
                let $w = persist::PersistWorkload;
                $body
            }
            "C17" | "C18" => {
                let $w = lo::LoWorkload { property: if $id == "C17" { "C17" } else { "C18" } };
                $body
            }
            "C19" => {
                let $w = damage::DamageWorkload { base: framework::verif_seed() };
                $body
            }
            _ => $else,
        }
    };
}

/// (quick runs, thorough runs, quick wall cap s, thorough wall cap s)
fn plan_for(id: &str) -> (u64, u64, u64, u64) {
    match id {
        "C11" => (5000, 60000, 300, 2400),
        "C06" | "C07" | "C08" | "C13" | "C14" => (12000, 150000, 300, 2400),
        "C10" => (6000, 100000, 300, 2400),
        "C09" => (6000, 80000, 300, 2400),
        "C19" => (0, 0, 600, 3000),
        "C17" => (12000, 200000, 300, 2400),
        "C18" => (15000, 300000, 300, 2400),
        _ => (100, 1000, 300, 2400),
    }
}

fn usage() -> ! {
    eprintln!("usage: skasim check <ID> quick|thorough | replay <file> | selftest <name> | exec ...");
    std::process::exit(2);
}

fn main() {
    if std::env::var_os("SKASIM_CHILD").is_some() {
        child::child_main();
    }
    let args: Vec<String> = std::env::args().collect();
    let code = match args.get(1).map(|s| s.as_str()) {
        Some("check") => {
            let id = args.get(2).cloned().unwrap_or_else(|| usage());
            let tier = match args.get(3).map(|s| s.as_str()) {
                Some("thorough") => Tier::Thorough,
                _ => Tier::Quick,
            };
            let q = tier == Tier::Quick;
            let runs_env: Option<u64> = std::env::var("VERIF_RUNS").ok().and_then(|s| s.parse().ok());
            let plan = |quick: u64, thorough: u64, cap_q: u64, cap_t: u64| BatchPlan {
                runs: runs_env.unwrap_or(if q { quick } else { thorough }),
                wall_cap_s: if q { cap_q } else { cap_t },
            };
            let (pq, pt, cq, ct) = plan_for(&id);
            with_workload!(id.as_str(), w => {
                use framework::Workload;
                let mut pl = plan(pq, pt, cq, ct);
                if runs_env.is_none() {
                    if let Some(n) = w.runs_needed(tier) {
                        pl.runs = n;
                    }
                }
                framework::check(&w, tier, pl)
            }, {
                eprintln!("no check for {id}");
                2
            })
        }
        Some("worker") => {
            // skasim worker ID TIER SEED START STRIDE RUNS CAP   (internal: one batch worker process)
            let tier = if args[3] == "thorough" { Tier::Thorough } else { Tier::Quick };
            let n = |i: usize| -> u64 { args[i].parse().unwrap() };
            with_workload!(args[2].as_str(), w => framework::worker_main(&w, tier, n(4), n(5), n(6), n(7), n(8)), 2)
        }
        Some("replay") => {
            let path = args.get(2).cloned().unwrap_or_else(|| usage());
            let s = std::fs::read_to_string(&path).unwrap_or_else(|e| {
                eprintln!("HARNESS-ERROR cannot read {path}: {e}");
                std::process::exit(2)
            });
            let mut v: serde_json::Value = serde_json::from_str(&s).unwrap_or_else(|e| {
                eprintln!("HARNESS-ERROR cannot parse {path}: {e}");
                std::process::exit(2)
            });
            v["__path"] = serde_json::Value::String(path.clone());
            let prop = v["property"].as_str().unwrap_or("").to_string();
            with_workload!(prop.as_str(), w => framework::replay(&w, &v), {
                eprintln!("HARNESS-ERROR unknown property {prop}");
                2
            })
        }
        Some("selftest") => match args.get(2).map(|s| s.as_str()) {
            Some("conformance") => selftest::conformance(args.get(3).and_then(|s| s.parse().ok()).unwrap_or(40)),
            Some("determinism") => {
                let runs: u64 = args.get(3).and_then(|s| s.parse().ok()).unwrap_or(200);
                let mut code = 0;
                for id in ["C06", "C07", "C08", "C09", "C10", "C11", "C13", "C14", "C17", "C18", "C19"] {
                    let r = with_workload!(id, w => framework::determinism_selftest(&w, Tier::Quick, framework::verif_seed(), runs), Err("?".into()));
                    match r {
                        Ok(v) => println!("determinism {id}: {v}"),
                        Err(e) => {
                            println!("determinism {id}: FAILED {e}");
                            code = 2;
                        }
                    }
                }
                procsim::cleanup_scratch();
                code
            }
            _ => usage(),
        },
        Some("exec") => {
            // skasim exec SEED CORES POLICY HOOKS -- ska args   (debug aid; runs in the cwd)
            let p = procsim::Proc {
                argv: args[7..].to_vec(),
                seed: args[2].parse().unwrap(),
                cores: args[3].parse().unwrap(),
                policy: args[4].clone(),
                hooks: args[5].parse().unwrap(),
                fsize: None,
                fsize_error: false,
                decisions: None,
            };
            let dir = procsim::RunDir { path: std::env::current_dir().unwrap() };
            let mut log = vec![];
            let r = procsim::run_proc(&dir, &p, &mut log);
            std::mem::forget(dir);
            match r {
                Ok(o) => {
                    print!("{}", String::from_utf8_lossy(&o.stdout));
                    eprint!("{}", String::from_utf8_lossy(&o.stderr));
                    eprintln!("{}", log.join("\n"));
                    0
                }
                Err(e) => {
                    eprintln!("harness error {}", e.0);
                    2
                }
            }
        }
        _ => usage(),
    };
    std::process::exit(code);
}
