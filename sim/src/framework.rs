//! Batch runner, minimiser, replay files, known findings, evidence.
//!
//! One integer decides everything: run i of a batch is generated from mix(VERIF_SEED, i); a
//! run's verdict depends only on that value and the code, so the worker count cannot change it.

use std::collections::{BTreeMap, BTreeSet};
use std::sync::atomic::{AtomicBool, AtomicU64, Ordering};
use std::sync::Mutex;
use std::time::Instant;

use serde::de::DeserializeOwned;
use serde::Serialize;
use serde_json::{json, Value};

use crate::procsim::{acct, HarnessError, RunDir};
use crate::util::{fnv_str, mix};

pub const DEFAULT_SEED: u64 = 20260926;

#[derive(Clone, Copy, Debug, PartialEq, Eq)]
pub enum Tier {
    Quick,
    Thorough,
}
impl Tier {
    pub fn name(&self) -> &'static str {
        match self {
            Tier::Quick => "quick",
            Tier::Thorough => "thorough",
        }
    }
}

pub fn verif_seed() -> u64 {
    std::env::var("VERIF_SEED")
        .ok()
        .and_then(|s| s.trim().parse::<i128>().ok())
        .map(|v| v as u64)
        .unwrap_or(DEFAULT_SEED)
}
pub fn jobs() -> usize {
    std::env::var("VERIF_JOBS")
        .ok()
        .and_then(|s| s.parse().ok())
        .unwrap_or(16)
}

/// what executing one case found
#[derive(Clone, Debug, Default)]
pub struct Outcome {
    /// (signature, message): signature identifies the failing site/input class; it is what the
    /// minimiser must preserve and what known_findings.json lists
    pub violation: Option<(String, String)>,
    /// did the case exercise the property at all (by the workload's stated rule)
    pub nontrivial: bool,
    /// event log (no clocks, no pids): diffed by the determinism self-test
    pub log: Vec<String>,
}

pub struct Ctx {
    pub dir: RunDir,
    pub log: Vec<String>,
}
impl Ctx {
    pub fn new() -> Ctx {
        Ctx {
            dir: RunDir::new(),
            log: vec![],
        }
    }
}

pub trait Workload: Sync {
    type Case: Serialize + DeserializeOwned + Clone + Send;
    fn property(&self) -> &'static str;
    fn name(&self) -> &'static str;
    fn level(&self) -> &'static str {
        "exploration"
    }
    fn rule(&self) -> String;
    fn assumptions(&self) -> Vec<String>;
    fn generate(&self, seed: u64, tier: Tier) -> Self::Case;
    fn execute(&self, case: &Self::Case, ctx: &mut Ctx) -> Result<Outcome, HarnessError>;
    /// structurally smaller candidate cases, most aggressive first
    fn shrink(&self, case: &Self::Case) -> Vec<Self::Case>;
    /// what makes two cases "the same" for distinct_nontrivial (default: the whole case)
    fn case_key(&self, case: &Self::Case) -> u64 {
        fnv_str(&serde_json::to_string(case).unwrap_or_default())
    }
    /// a compact rendering for evidence.samples
    fn sample_view(&self, case: &Self::Case) -> Value {
        serde_json::to_value(case).unwrap_or(Value::Null)
    }
    /// extra coverage keys computed at the end of a batch
    fn extra_coverage(&self) -> BTreeMap<String, Value> {
        BTreeMap::new()
    }
}

pub struct BatchPlan {
    pub runs: u64,
    pub wall_cap_s: u64,
}

pub struct Found {
    pub index: u64,
    pub seed: u64,
    pub signature: String,
    pub message: String,
    pub case: Value,
}

pub struct BatchResult {
    pub evaluations: u64,
    pub distinct_nontrivial: u64,
    pub samples: Vec<Value>,
    pub found: Vec<Found>,
    pub wall_s: f64,
    pub capped: bool,
    pub harness_error: Option<String>,
    pub log_digest: u64,
}

/// Execute runs 0..plan.runs. Every failing run is collected (first occurrence of each signature,
/// by lowest run index) so that listed known findings do not hide a different violation.
pub fn run_batch<W: Workload>(w: &W, tier: Tier, base_seed: u64, plan: &BatchPlan) -> BatchResult {
    let start = Instant::now();
    let counter = AtomicU64::new(0);
    let done = AtomicU64::new(0);
    let capped = AtomicBool::new(false);
    let keys: Mutex<BTreeSet<u64>> = Mutex::new(BTreeSet::new());
    let samples: Mutex<BTreeMap<u64, Value>> = Mutex::new(BTreeMap::new());
    let found: Mutex<BTreeMap<String, Found>> = Mutex::new(BTreeMap::new());
    let herr: Mutex<Option<String>> = Mutex::new(None);
    let logs: Mutex<BTreeMap<u64, u64>> = Mutex::new(BTreeMap::new());
    let nworkers = jobs().max(1);
    std::thread::scope(|s| {
        for _ in 0..nworkers {
            s.spawn(|| loop {
                let i = counter.fetch_add(1, Ordering::SeqCst);
                if i >= plan.runs || herr.lock().unwrap().is_some() {
                    break;
                }
                if start.elapsed().as_secs() > plan.wall_cap_s {
                    capped.store(true, Ordering::SeqCst);
                    break;
                }
                let seed = mix(base_seed, i);
                let case = w.generate(seed, tier);
                let mut ctx = Ctx::new();
                match w.execute(&case, &mut ctx) {
                    Err(e) => {
                        *herr.lock().unwrap() = Some(format!("run {i} seed {seed}: {}", e.0));
                        break;
                    }
                    Ok(out) => {
                        done.fetch_add(1, Ordering::SeqCst);
                        let ld = fnv_str(&out.log.join("\n"));
                        logs.lock().unwrap().insert(i, ld);
                        if out.nontrivial {
                            keys.lock().unwrap().insert(w.case_key(&case));
                            let mut sm = samples.lock().unwrap();
                            if sm.len() < 3 || (i < 3) {
                                sm.insert(i, w.sample_view(&case));
                                while sm.len() > 3 {
                                    let last = *sm.keys().next_back().unwrap();
                                    sm.remove(&last);
                                }
                            }
                        }
                        if let Some((sig, msg)) = out.violation {
                            let mut f = found.lock().unwrap();
                            let replace = match f.get(&sig) {
                                Some(old) => old.index > i,
                                None => true,
                            };
                            if replace {
                                f.insert(
                                    sig.clone(),
                                    Found {
                                        index: i,
                                        seed,
                                        signature: sig,
                                        message: msg,
                                        case: serde_json::to_value(&case).unwrap(),
                                    },
                                );
                            }
                        }
                    }
                }
            });
        }
    });
    let mut log_digest = 0u64;
    for (i, d) in logs.lock().unwrap().iter() {
        log_digest = mix(log_digest, mix(*i, *d));
    }
    let mut found: Vec<Found> = found.into_inner().unwrap().into_values().collect();
    found.sort_by_key(|f| f.index);
    let distinct = keys.lock().unwrap().len() as u64;
    let herr_v = herr.into_inner().unwrap();
    BatchResult {
        evaluations: done.load(Ordering::SeqCst),
        distinct_nontrivial: distinct,
        samples: samples.into_inner().unwrap().into_values().collect(),
        found,
        wall_s: start.elapsed().as_secs_f64(),
        capped: capped.load(Ordering::SeqCst),
        harness_error: herr_v,
        log_digest,
    }
}

/// Greedy structural minimisation: keep a smaller case whenever it still fails with the same
/// signature. Bounded by executions and wall time.
pub fn minimise<W: Workload>(w: &W, case: &W::Case, signature: &str) -> (W::Case, u64) {
    let start = Instant::now();
    let mut cur = case.clone();
    let mut execs = 0u64;
    'outer: loop {
        if execs > 400 || start.elapsed().as_secs() > 240 {
            break;
        }
        for cand in w.shrink(&cur) {
            if execs > 400 || start.elapsed().as_secs() > 240 {
                break 'outer;
            }
            execs += 1;
            let mut ctx = Ctx::new();
            if let Ok(out) = w.execute(&cand, &mut ctx) {
                if let Some((sig, _)) = out.violation {
                    if sig == signature {
                        cur = cand;
                        continue 'outer;
                    }
                }
            }
        }
        break;
    }
    (cur, execs)
}

// ------------------------------------------------------------------ known findings
#[derive(Clone, Debug, serde::Deserialize)]
pub struct KnownFinding {
    pub property: String,
    /// "open" or "fixed"
    pub status: String,
    /// violation signature (exact match) for open findings
    #[serde(default)]
    pub signature: String,
    #[serde(default)]
    pub what: String,
    #[serde(default)]
    pub commit: String,
}
pub fn load_known(property: &str) -> Vec<KnownFinding> {
    let p = verif_root().join("known_findings.json");
    let Ok(s) = std::fs::read_to_string(p) else { return vec![] };
    let Ok(v) = serde_json::from_str::<Value>(&s) else { return vec![] };
    v.get("findings")
        .and_then(|f| serde_json::from_value::<Vec<KnownFinding>>(f.clone()).ok())
        .unwrap_or_default()
        .into_iter()
        .filter(|k| k.property == property && k.status == "open")
        .collect()
}

pub fn verif_root() -> std::path::PathBuf {
    std::env::var("VERIF_ROOT")
        .map(std::path::PathBuf::from)
        .unwrap_or_else(|_| std::path::PathBuf::from("/verif"))
}

// ------------------------------------------------------------------ check driver
pub fn write_replay<W: Workload>(
    w: &W,
    f: &Found,
    case: &W::Case,
    minimised: bool,
    shrink_execs: u64,
) -> String {
    let dir = verif_root().join("replays");
    let _ = std::fs::create_dir_all(&dir);
    let path = dir.join(format!("{}-{}.json", w.property(), f.seed));
    let v = json!({
        "property": w.property(),
        "workload": w.name(),
        "signature": f.signature,
        "message": f.message,
        "run_index": f.index,
        "run_seed": f.seed,
        "minimised": minimised,
        "shrink_executions": shrink_execs,
        "case": serde_json::to_value(case).unwrap(),
        "original_case": f.case,
    });
    let _ = std::fs::write(&path, serde_json::to_string_pretty(&v).unwrap());
    path.to_string_lossy().to_string()
}

pub fn acct_json() -> Value {
    let a = acct();
    let hooks = a.hook_hits.lock().unwrap().clone();
    let hm = a.hook_multiworker.lock().unwrap().clone();
    json!({
        "simulated_processes": a.procs.load(Ordering::Relaxed),
        "simulated_time_scheduler_steps": a.steps.load(Ordering::Relaxed),
        "context_switches": a.switches.load(Ordering::Relaxed),
        "steps_with_more_than_one_runnable_task": a.multi_steps.load(Ordering::Relaxed),
        "max_concurrently_runnable_tasks": a.max_runnable.load(Ordering::Relaxed),
        "distinct_interleavings": a.traces.lock().unwrap().len(),
        "distinct_interleavings_measure": "distinct hashes of the recorded scheduler decision list (task choices and PRNG draws) over processes that had >1 runnable task at some step",
        "processes_with_more_than_one_runnable_task": a.procs_multi.load(Ordering::Relaxed),
        "joins": a.joins.load(Ordering::Relaxed),
        "steals": a.steals.load(Ordering::Relaxed),
        "processes_with_a_steal": a.procs_with_steal.load(Ordering::Relaxed),
        "injected_jobs": a.injected.load(Ordering::Relaxed),
        "jobs_run_nested_while_waiting": a.nested.load(Ordering::Relaxed),
        "global_pool_implicitly_initialised": a.implicit_global.load(Ordering::Relaxed),
        "build_global_refused": a.build_global_refused.load(Ordering::Relaxed),
        "simulation_failures_deadlock_or_stepcap": a.sim_failures.load(Ordering::Relaxed),
        "hook_site_hits": hooks,
        "hook_site_processes_with_more_than_one_worker": hm,
        "processes_by_subcommand": *a.by_cmd.lock().unwrap(),
        "faults_fired": *a.faults.lock().unwrap(),
        "probes": *a.probes.lock().unwrap(),
    })
}

pub const REAL_STUB: &str = "REAL: all of ska (cli, main, every module), rayon iterators/splitters, ndarray+hashbrown+indicatif rayon glue, dashmap, needletail, snap, ciborium, noodles-vcf, clap; Linux tmpfs and RLIMIT_FSIZE. STUB: rayon-core (simulated work-stealing core on shuttle), OS entropy (getrandom), ahash random source; SKASIM_CORES stands for the machine's core count.";

/// Run a property check end to end: batch, triage against known findings, minimise, replay
/// file, evidence, exit code.
pub fn check<W: Workload>(w: &W, tier: Tier, plan: BatchPlan) -> i32 {
    let seed = verif_seed();
    println!(
        "check {} tier={} seed={} runs={} workers={}",
        w.property(),
        tier.name(),
        seed,
        plan.runs,
        jobs()
    );
    let r = run_batch(w, tier, seed, &plan);
    if let Some(e) = &r.harness_error {
        eprintln!("HARNESS-ERROR {e}");
        crate::procsim::cleanup_scratch();
        return 2;
    }
    let known = load_known(w.property());
    let mut violations = 0;
    let mut known_hits = vec![];
    for f in &r.found {
        if let Some(k) = known.iter().find(|k| k.signature == f.signature) {
            println!(
                "KNOWN-FINDING: property={} {} [{}] (run {} seed {})",
                w.property(),
                k.what,
                f.signature,
                f.index,
                f.seed
            );
            known_hits.push(f.signature.clone());
            continue;
        }
        violations += 1;
        let case: W::Case = serde_json::from_value(f.case.clone()).unwrap();
        let (min_case, execs) = minimise(w, &case, &f.signature);
        // the minimised case must fail the same way in a fresh execution
        let mut ctx = Ctx::new();
        let confirmed = matches!(w.execute(&min_case, &mut ctx), Ok(Outcome { violation: Some((ref s, _)), .. }) if *s == f.signature);
        let path = if confirmed {
            write_replay(w, f, &min_case, true, execs)
        } else {
            write_replay(w, f, &case, false, execs)
        };
        println!("violation: {} :: {}", f.signature, f.message);
        println!("VIOLATION property={} replay={}", w.property(), path);
    }
    for k in &known {
        if !known_hits.contains(&k.signature) {
            println!(
                "note: listed open finding not reached in this batch: property={} [{}]",
                w.property(),
                k.signature
            );
        }
    }
    // evidence
    let hours = r.wall_s / 3600.0;
    let procs = acct().procs.load(Ordering::Relaxed);
    let mut cov = serde_json::Map::new();
    cov.insert("evaluations".into(), json!(r.evaluations));
    cov.insert("distinct_nontrivial".into(), json!(r.distinct_nontrivial));
    cov.insert("rule".into(), json!(w.rule()));
    cov.insert("samples".into(), json!(r.samples));
    cov.insert("exhaustive".into(), json!(false));
    cov.insert("runs_planned".into(), json!(plan.runs));
    cov.insert("stopped_by_wall_cap".into(), json!(r.capped));
    cov.insert("runs_per_hour".into(), json!((r.evaluations as f64 / hours.max(1e-9)).round()));
    cov.insert("simulated_processes_per_hour".into(), json!((procs as f64 / hours.max(1e-9)).round()));
    cov.insert("seeds".into(), json!(format!("run i uses mix(VERIF_SEED={seed}, i), i in 0..{}", r.evaluations)));
    cov.insert("event_log_digest".into(), json!(format!("{:016x}", r.log_digest)));
    cov.insert("simulation".into(), acct_json());
    cov.insert("real_vs_stub".into(), json!(REAL_STUB));
    cov.insert("known_findings_seen".into(), json!(known_hits));
    for (k, v) in w.extra_coverage() {
        cov.insert(k, v);
    }
    let ev = json!({
        "property_id": w.property(),
        "tier": tier.name(),
        "seed": seed,
        "level": w.level(),
        "coverage": Value::Object(cov),
        "assumptions": w.assumptions(),
        "wall_s": (r.wall_s * 100.0).round() / 100.0,
        "violations": violations,
    });
    let evdir = verif_root().join("evidence");
    let _ = std::fs::create_dir_all(&evdir);
    let _ = std::fs::write(
        evdir.join(format!("{}.json", w.property())),
        serde_json::to_string_pretty(&ev).unwrap(),
    );
    println!(
        "{}: {} runs ({} distinct non-trivial), {} simulated processes, {:.1}s, violations={}",
        w.property(),
        r.evaluations,
        r.distinct_nontrivial,
        procs,
        r.wall_s,
        violations
    );
    crate::procsim::cleanup_scratch();
    if violations > 0 {
        1
    } else {
        0
    }
}

/// Re-execute a replay file in this (fresh) process.
pub fn replay<W: Workload>(w: &W, v: &Value) -> i32 {
    let case: W::Case = match serde_json::from_value(v["case"].clone()) {
        Ok(c) => c,
        Err(e) => {
            eprintln!("HARNESS-ERROR cannot parse case: {e}");
            return 2;
        }
    };
    let mut ctx = Ctx::new();
    let r = w.execute(&case, &mut ctx);
    crate::procsim::cleanup_scratch();
    match r {
        Err(e) => {
            eprintln!("HARNESS-ERROR {}", e.0);
            2
        }
        Ok(out) => {
            for l in &out.log {
                println!("  {l}");
            }
            match out.violation {
                Some((sig, msg)) => {
                    println!("violation: {sig} :: {msg}");
                    println!(
                        "VIOLATION property={} replay={}",
                        w.property(),
                        v["__path"].as_str().unwrap_or("?")
                    );
                    1
                }
                None => {
                    println!("replay: no violation (property held on this case)");
                    0
                }
            }
        }
    }
}
