//! Batch runner, minimiser, replay files, known findings, evidence.
//!
//! One integer decides everything: run i of a batch is generated from mix(VERIF_SEED, i); a
//! run's verdict depends only on that value and the code, so the worker count cannot change it.

use std::collections::{BTreeMap, BTreeSet};
use std::sync::atomic::Ordering;
use std::time::Instant;

use serde::de::DeserializeOwned;
use serde::Serialize;
use serde_json::{json, Value};

use crate::procsim::{acct, HarnessError, RunDir};
use crate::util::{fnv_str, mix};

pub const DEFAULT_SEED: u64 = 20260926;

#[derive(Clone, Copy, Debug, PartialEq, Eq)]
pub enum Tier {
    Quick,
    Thorough,
}
impl Tier {
    pub fn name(&self) -> &'static str {
        match self {
            Tier::Quick => "quick",
            Tier::Thorough => "thorough",
        }
    }
}

pub fn verif_seed() -> u64 {
    std::env::var("VERIF_SEED")
        .ok()
        .and_then(|s| s.trim().parse::<i128>().ok())
        .map(|v| v as u64)
        .unwrap_or(DEFAULT_SEED)
}
pub static JOBS_OVERRIDE: std::sync::atomic::AtomicUsize = std::sync::atomic::AtomicUsize::new(0);
pub fn jobs() -> usize {
    let o = JOBS_OVERRIDE.load(Ordering::Relaxed);
    if o > 0 {
        return o;
    }
    std::env::var("VERIF_JOBS")
        .ok()
        .and_then(|s| s.parse().ok())
        .unwrap_or(16)
}

/// what executing one case found
#[derive(Clone, Debug, Default)]
pub struct Outcome {
    /// (signature, message): signature identifies the failing site/input class; it is what the
    /// minimiser must preserve and what known_findings.json lists
    pub violation: Option<(String, String)>,
    /// did the case exercise the property at all (by the workload's stated rule)
    pub nontrivial: bool,
    /// event log (no clocks, no pids): diffed by the determinism self-test
    pub log: Vec<String>,
    /// enumerating workloads: sub-cases evaluated in this run / distinct non-trivial ones among
    /// them (0 = count the run itself)
    pub evals: u64,
    pub distinct: u64,
}

pub struct Ctx {
    pub dir: RunDir,
    pub log: Vec<String>,
}
impl Ctx {
    pub fn new() -> Ctx {
        Ctx {
            dir: RunDir::new(),
            log: vec![],
        }
    }
}

pub trait Workload: Sync {
    type Case: Serialize + DeserializeOwned + Clone + Send;
    fn property(&self) -> &'static str;
    fn name(&self) -> &'static str;
    fn level(&self) -> &'static str {
        "exploration"
    }
    fn rule(&self) -> String;
    fn assumptions(&self) -> Vec<String>;
    /// `index` is the run number within the batch (enumerating workloads slice their space by it)
    fn generate(&self, seed: u64, index: u64, tier: Tier) -> Self::Case;
    fn execute(&self, case: &Self::Case, ctx: &mut Ctx) -> Result<Outcome, HarnessError>;
    /// structurally smaller candidate cases, most aggressive first
    fn shrink(&self, case: &Self::Case) -> Vec<Self::Case>;
    /// after structural shrinking: workload-specific refinement that may execute cases (e.g.
    /// schedule minimisation); must return a case that still fails with `signature`
    fn refine(&self, case: &Self::Case, _signature: &str) -> Self::Case {
        case.clone()
    }
    /// what makes two cases "the same" for distinct_nontrivial (default: the whole case)
    fn case_key(&self, case: &Self::Case) -> u64 {
        fnv_str(&serde_json::to_string(case).unwrap_or_default())
    }
    /// a compact rendering for evidence.samples
    fn sample_view(&self, case: &Self::Case) -> Value {
        serde_json::to_value(case).unwrap_or(Value::Null)
    }
    /// does a complete batch at this tier enumerate a finite space completely
    fn exhaustive(&self, _tier: Tier) -> bool {
        false
    }
    /// number of runs a batch needs at this tier (None = the default plan)
    fn runs_needed(&self, _tier: Tier) -> Option<u64> {
        None
    }
    /// a verdict over the whole batch (rates), from the merged accounting; None = holds
    fn batch_verdict(&self, _acct: &Value) -> Option<(String, String)> {
        None
    }
    /// extra coverage keys computed at the end of a batch
    fn extra_coverage(&self) -> BTreeMap<String, Value> {
        BTreeMap::new()
    }
}

pub struct BatchPlan {
    pub runs: u64,
    pub wall_cap_s: u64,
}

pub struct Found {
    pub index: u64,
    pub seed: u64,
    pub signature: String,
    pub message: String,
    pub case: Value,
}

pub struct BatchResult {
    /// runs completed
    pub runs: u64,
    pub evaluations: u64,
    pub distinct_nontrivial: u64,
    pub samples: Vec<Value>,
    pub found: Vec<Found>,
    pub wall_s: f64,
    pub capped: bool,
    pub harness_error: Option<String>,
    pub log_digest: u64,
    /// run index -> digest of its event log (+ file digests)
    pub run_logs: BTreeMap<u64, u64>,
    /// merged accounting of all workers (raw form, see acct_raw_json)
    pub acct: Value,
    pub extra: Value,
}

/// One worker process: executes runs start, start+stride, .. < runs single-threaded and prints one
/// JSON line per run plus a final accounting line. (Worker *processes*, not threads: spawning
/// children from a many-threaded parent serialises in the kernel.)
pub fn worker_main<W: Workload>(w: &W, tier: Tier, base_seed: u64, start: u64, stride: u64, runs: u64, cap_s: u64) -> i32 {
    use std::io::Write;
    let t0 = Instant::now();
    let out = std::io::stdout();
    let mut i = start;
    let mut code = 0;
    while i < runs {
        if t0.elapsed().as_secs() > cap_s {
            let _ = writeln!(out.lock(), "CAPPED {i}");
            break;
        }
        let seed = mix(base_seed, i);
        let case = w.generate(seed, i, tier);
        let mut ctx = Ctx::new();
        match w.execute(&case, &mut ctx) {
            Err(e) => {
                let _ = writeln!(out.lock(), "HERR run {i} seed {seed}: {}", e.0.replace('\n', " "));
                code = 2;
                break;
            }
            Ok(mut o) => {
                // digest of every file the run left on the simulated disk
                for name in ctx.dir.listing() {
                    if let Some(d) = ctx.dir.digest(&name) {
                        o.log.push(format!("file {name} {d:016x}"));
                    }
                }
                if std::env::var_os("SKASIM_DUMP_LOG").is_some() {
                    for l in &o.log {
                        eprintln!("LOG {i} {l}");
                    }
                }
                let line = json!({
                    "i": i,
                    "seed": seed,
                    "nontrivial": o.nontrivial,
                    "key": w.case_key(&case),
                    "log": fnv_str(&o.log.join("\n")),
                    "evals": o.evals,
                    "distinct": o.distinct,
                    "violation": o.violation.as_ref().map(|(s, m)| json!({"sig": s, "msg": m, "case": serde_json::to_value(&case).unwrap()})),
                    "sample": if i < 3 && o.nontrivial { w.sample_view(&case) } else { Value::Null },
                });
                let _ = writeln!(out.lock(), "RUN {line}");
            }
        }
        i += stride;
    }
    let _ = writeln!(out.lock(), "ACCT {}", acct_raw_json());
    let mut extra = serde_json::Map::new();
    for (k, v) in w.extra_coverage() {
        extra.insert(k, v);
    }
    let _ = writeln!(out.lock(), "EXTRA {}", Value::Object(extra));
    crate::procsim::cleanup_scratch();
    code
}

/// Execute runs 0..plan.runs over `jobs()` worker processes (static stride partition, so the set
/// of runs and every verdict is independent of the worker count). Every failing run is collected
/// (first occurrence of each signature, by lowest run index) so that listed known findings do not
/// hide a different violation.
pub fn run_batch<W: Workload>(w: &W, tier: Tier, base_seed: u64, plan: &BatchPlan) -> BatchResult {
    use std::io::{BufRead, BufReader};
    use std::process::{Command, Stdio};
    let start = Instant::now();
    let nworkers = (jobs().max(1) as u64).min(plan.runs.max(1));
    let exe = std::env::current_exe().expect("current_exe");
    let mut children = vec![];
    for k in 0..nworkers {
        let mut cmd = Command::new(&exe);
        cmd.args([
            "worker",
            w.property(),
            tier.name(),
            &base_seed.to_string(),
            &k.to_string(),
            &nworkers.to_string(),
            &plan.runs.to_string(),
            &plan.wall_cap_s.to_string(),
        ])
        .stdin(Stdio::null())
        .stdout(Stdio::piped())
        .stderr(Stdio::inherit());
        children.push(cmd.spawn().expect("spawn worker"));
    }
    let mut evaluations = 0u64;
    let mut unit_evals = 0u64;
    let mut unit_distinct = 0u64;
    let mut capped = false;
    let mut keys: BTreeSet<u64> = BTreeSet::new();
    let mut samples: BTreeMap<u64, Value> = BTreeMap::new();
    let mut found: BTreeMap<String, Found> = BTreeMap::new();
    let mut herr: Option<String> = None;
    let mut logs: BTreeMap<u64, u64> = BTreeMap::new();
    let mut accts: Vec<Value> = vec![];
    let mut extras: Vec<Value> = vec![];
    // read workers one after the other (pipes buffer; workers never block for long on a full pipe
    // because lines are short except for violations)
    let handles: Vec<_> = children
        .into_iter()
        .map(|mut ch| {
            let so = ch.stdout.take().unwrap();
            std::thread::spawn(move || {
                let mut lines = vec![];
                for l in BufReader::new(so).lines().map_while(Result::ok) {
                    lines.push(l);
                }
                let st = ch.wait();
                (lines, st.map(|s| s.code()).unwrap_or(None))
            })
        })
        .collect();
    for h in handles {
        let (lines, code) = h.join().expect("worker reader");
        if code != Some(0) && herr.is_none() {
            herr = Some(format!("worker exited with {code:?}"));
        }
        for l in lines {
            if let Some(j) = l.strip_prefix("RUN ") {
                let Ok(v) = serde_json::from_str::<Value>(j) else { continue };
                evaluations += 1;
                unit_evals += v["evals"].as_u64().unwrap_or(0);
                unit_distinct += v["distinct"].as_u64().unwrap_or(0);
                let i = v["i"].as_u64().unwrap_or(0);
                logs.insert(i, v["log"].as_u64().unwrap_or(0));
                if v["nontrivial"].as_bool().unwrap_or(false) {
                    keys.insert(v["key"].as_u64().unwrap_or(0));
                }
                if !v["sample"].is_null() {
                    samples.insert(i, v["sample"].clone());
                }
                if !v["violation"].is_null() {
                    let sig = v["violation"]["sig"].as_str().unwrap_or("").to_string();
                    let replace = match found.get(&sig) {
                        Some(old) => old.index > i,
                        None => true,
                    };
                    if replace {
                        found.insert(
                            sig.clone(),
                            Found {
                                index: i,
                                seed: v["seed"].as_u64().unwrap_or(0),
                                signature: sig,
                                message: v["violation"]["msg"].as_str().unwrap_or("").to_string(),
                                case: v["violation"]["case"].clone(),
                            },
                        );
                    }
                }
            } else if let Some(j) = l.strip_prefix("ACCT ") {
                if let Ok(v) = serde_json::from_str::<Value>(j) {
                    accts.push(v);
                }
            } else if let Some(j) = l.strip_prefix("EXTRA ") {
                if let Ok(v) = serde_json::from_str::<Value>(j) {
                    extras.push(v);
                }
            } else if l.starts_with("CAPPED") {
                capped = true;
            } else if let Some(e) = l.strip_prefix("HERR ") {
                herr = Some(e.to_string());
            }
        }
    }
    let mut log_digest = 0u64;
    for (i, d) in logs.iter() {
        log_digest = mix(log_digest, mix(*i, *d));
    }
    let mut found: Vec<Found> = found.into_values().collect();
    found.sort_by_key(|f| f.index);
    BatchResult {
        runs: evaluations,
        evaluations: if unit_evals > 0 { unit_evals } else { evaluations },
        distinct_nontrivial: if unit_evals > 0 { unit_distinct } else { keys.len() as u64 },
        samples: samples.into_values().take(3).collect(),
        found,
        wall_s: start.elapsed().as_secs_f64(),
        capped,
        harness_error: herr,
        log_digest,
        run_logs: logs,
        acct: merge_values(&accts),
        extra: merge_values(&extras),
    }
}

/// merge per-worker statistics: numbers add (keys starting with "max" take the maximum), arrays
/// of numbers add element-wise, arrays under "traces" are united, objects merge recursively
pub fn merge_values(vs: &[Value]) -> Value {
    fn merge(key: &str, a: &Value, b: &Value) -> Value {
        match (a, b) {
            (Value::Number(x), Value::Number(y)) => {
                if let (Some(x), Some(y)) = (x.as_u64(), y.as_u64()) {
                    if key.starts_with("max") {
                        json!(x.max(y))
                    } else {
                        json!(x + y)
                    }
                } else {
                    json!(x.as_f64().unwrap_or(0.0) + y.as_f64().unwrap_or(0.0))
                }
            }
            (Value::Array(x), Value::Array(y)) if key == "traces" => {
                let mut s: BTreeSet<u64> = x.iter().filter_map(|v| v.as_u64()).collect();
                s.extend(y.iter().filter_map(|v| v.as_u64()));
                json!(s.into_iter().collect::<Vec<_>>())
            }
            (Value::Array(x), Value::Array(y)) => {
                let n = x.len().max(y.len());
                Value::Array(
                    (0..n)
                        .map(|i| merge(key, x.get(i).unwrap_or(&json!(0)), y.get(i).unwrap_or(&json!(0))))
                        .collect(),
                )
            }
            (Value::Object(x), Value::Object(y)) => {
                let mut o = x.clone();
                for (k, v) in y {
                    let nv = match o.get(k) {
                        Some(old) => merge(k, old, v),
                        None => v.clone(),
                    };
                    o.insert(k.clone(), nv);
                }
                Value::Object(o)
            }
            (Value::Null, v) | (v, Value::Null) => v.clone(),
            (v, _) => v.clone(),
        }
    }
    let mut acc = Value::Null;
    for v in vs {
        acc = merge("", &acc, v);
    }
    acc
}

/// Greedy structural minimisation: keep a smaller case whenever it still fails with the same
/// signature. Bounded by executions and wall time.
pub fn minimise<W: Workload>(w: &W, case: &W::Case, signature: &str) -> (W::Case, u64) {
    let start = Instant::now();
    let mut cur = case.clone();
    let mut execs = 0u64;
    'outer: loop {
        if execs > 400 || start.elapsed().as_secs() > 240 {
            break;
        }
        for cand in w.shrink(&cur) {
            if execs > 400 || start.elapsed().as_secs() > 240 {
                break 'outer;
            }
            execs += 1;
            let mut ctx = Ctx::new();
            if let Ok(out) = w.execute(&cand, &mut ctx) {
                if let Some((sig, _)) = out.violation {
                    if sig == signature {
                        cur = cand;
                        continue 'outer;
                    }
                }
            }
        }
        break;
    }
    let cur = w.refine(&cur, signature);
    (cur, execs)
}

// ------------------------------------------------------------------ known findings
#[derive(Clone, Debug, serde::Deserialize)]
pub struct KnownFinding {
    pub property: String,
    /// "open" or "fixed"
    pub status: String,
    /// violation signature (exact match) for open findings
    #[serde(default)]
    pub signature: String,
    #[serde(default)]
    pub what: String,
    #[serde(default)]
    pub commit: String,
    /// stored replay file (relative to /verif) that identifies an open finding by its input
    #[serde(default)]
    pub replay: String,
}
pub fn load_known(property: &str) -> Vec<KnownFinding> {
    let p = verif_root().join("known_findings.json");
    let Ok(s) = std::fs::read_to_string(p) else { return vec![] };
    let Ok(v) = serde_json::from_str::<Value>(&s) else { return vec![] };
    v.get("findings")
        .and_then(|f| serde_json::from_value::<Vec<KnownFinding>>(f.clone()).ok())
        .unwrap_or_default()
        .into_iter()
        .filter(|k| k.property == property && k.status == "open")
        .collect()
}

pub fn verif_root() -> std::path::PathBuf {
    std::env::var("VERIF_ROOT")
        .map(std::path::PathBuf::from)
        .unwrap_or_else(|_| std::path::PathBuf::from("/verif"))
}

// ------------------------------------------------------------------ determinism self-test
/// Execute the first `runs` runs of the batch three times, each time in fresh worker processes,
/// at 1, 16 and 5 workers, and compare every run's event log digest (argv, exit status,
/// scheduler decision hash, step count, stdout digest of every simulated process, digest of
/// every file left on the simulated disk, verdict).
pub fn determinism_selftest<W: Workload>(w: &W, tier: Tier, seed: u64, runs: u64) -> Result<Value, String> {
    let plan = BatchPlan { runs, wall_cap_s: 1200 };
    let mut results = vec![];
    let workers = [1usize, 16, 5];
    for j in workers {
        JOBS_OVERRIDE.store(j, Ordering::Relaxed);
        let r = run_batch(w, tier, seed, &plan);
        JOBS_OVERRIDE.store(0, Ordering::Relaxed);
        if let Some(e) = r.harness_error {
            return Err(format!("harness error during determinism self-test: {e}"));
        }
        results.push((r.run_logs, r.acct["traces"].as_array().map(|a| a.len()).unwrap_or(0), r.found.iter().map(|f| (f.index, f.signature.clone())).collect::<Vec<_>>()));
    }
    for k in 1..results.len() {
        if results[k].0 != results[0].0 || results[k].2 != results[0].2 {
            let bad: Vec<u64> = results[0].0.iter().filter(|(i, d)| results[k].0.get(*i) != Some(*d)).map(|(i, _)| *i).take(5).collect();
            return Err(format!("NONDETERMINISM: event logs of runs {bad:?} (seeds {:?}) differ between {} and {} workers", bad.iter().map(|i| mix(seed, *i)).collect::<Vec<_>>(), workers[0], workers[k]));
        }
    }
    Ok(json!({"runs": runs, "executions_of_each_run": workers.len(), "worker_counts": workers, "event_logs_identical": true,
        "compared": "per run: argv, exit status, scheduler-decision hash, step count and stdout digest of every simulated process; digest of every file left on the simulated disk; verdict"}))
}

// ------------------------------------------------------------------ check driver
pub fn write_replay<W: Workload>(
    w: &W,
    f: &Found,
    case: &W::Case,
    minimised: bool,
    shrink_execs: u64,
) -> String {
    let dir = verif_root().join("replays");
    let _ = std::fs::create_dir_all(&dir);
    let path = dir.join(format!("{}-{}.json", w.property(), f.seed));
    let v = json!({
        "property": w.property(),
        "workload": w.name(),
        "signature": f.signature,
        "message": f.message,
        "run_index": f.index,
        "run_seed": f.seed,
        "minimised": minimised,
        "shrink_executions": shrink_execs,
        "case": serde_json::to_value(case).unwrap(),
        "original_case": f.case,
    });
    let _ = std::fs::write(&path, serde_json::to_string_pretty(&v).unwrap());
    path.to_string_lossy().to_string()
}

/// this process's accounting in mergeable form
pub fn acct_raw_json() -> Value {
    let a = acct();
    json!({
        "simulated_processes": a.procs.load(Ordering::Relaxed),
        "simulated_time_scheduler_steps": a.steps.load(Ordering::Relaxed),
        "context_switches": a.switches.load(Ordering::Relaxed),
        "steps_with_more_than_one_runnable_task": a.multi_steps.load(Ordering::Relaxed),
        "max_concurrently_runnable_tasks": a.max_runnable.load(Ordering::Relaxed),
        "traces": a.traces.lock().unwrap().iter().copied().collect::<Vec<u64>>(),
        "processes_with_more_than_one_runnable_task": a.procs_multi.load(Ordering::Relaxed),
        "joins": a.joins.load(Ordering::Relaxed),
        "steals": a.steals.load(Ordering::Relaxed),
        "processes_with_a_steal": a.procs_with_steal.load(Ordering::Relaxed),
        "injected_jobs": a.injected.load(Ordering::Relaxed),
        "jobs_run_nested_while_waiting": a.nested.load(Ordering::Relaxed),
        "global_pool_implicitly_initialised": a.implicit_global.load(Ordering::Relaxed),
        "build_global_refused": a.build_global_refused.load(Ordering::Relaxed),
        "simulation_failures_deadlock_or_stepcap": a.sim_failures.load(Ordering::Relaxed),
        "hook_site_hits": *a.hook_hits.lock().unwrap(),
        "hook_site_processes_with_more_than_one_worker": *a.hook_multiworker.lock().unwrap(),
        "processes_by_subcommand": *a.by_cmd.lock().unwrap(),
        "faults_fired": *a.faults.lock().unwrap(),
        "probes": *a.probes.lock().unwrap(),
    })
}

/// merged accounting rendered for the evidence file
pub fn acct_pretty(raw: &Value) -> Value {
    let mut v = raw.clone();
    if let Some(o) = v.as_object_mut() {
        let n = o.get("traces").and_then(|t| t.as_array()).map(|a| a.len()).unwrap_or(0);
        o.remove("traces");
        o.insert("distinct_interleavings".into(), json!(n));
        o.insert("distinct_interleavings_measure".into(), json!("distinct hashes of the recorded scheduler decision list (task choices and PRNG draws) over processes that had >1 runnable task at some step"));
    }
    v
}

pub const REAL_STUB: &str = "REAL: all of ska (cli, main, every module), rayon iterators/splitters (rayon 1.12.0 plus one switch point in par_bridge), ndarray+hashbrown+indicatif rayon glue, dashmap (6.2.1 plus a callback before each operation), needletail, snap, ciborium, noodles-vcf, clap; Linux tmpfs and RLIMIT_FSIZE. STUB: rayon-core (simulated work-stealing core on shuttle), OS entropy (getrandom), ahash random source; SKASIM_CORES stands for the machine's core count.";

/// Run a property check end to end: batch, triage against known findings, minimise, replay
/// file, evidence, exit code.
pub fn check<W: Workload>(w: &W, tier: Tier, plan: BatchPlan) -> i32 {
    let seed = verif_seed();
    println!(
        "check {} tier={} seed={} runs={} workers={}",
        w.property(),
        tier.name(),
        seed,
        plan.runs,
        jobs()
    );
    let det_runs = std::env::var("VERIF_DET_RUNS").ok().and_then(|s| s.parse().ok()).unwrap_or(if tier == Tier::Quick { 16 } else { 160 }).min(plan.runs);
    let det = match determinism_selftest(w, tier, seed, det_runs) {
        Ok(v) => v,
        Err(e) => {
            eprintln!("HARNESS-ERROR {e}");
            crate::procsim::cleanup_scratch();
            return 2;
        }
    };
    let r = run_batch(w, tier, seed, &plan);
    if let Some(e) = &r.harness_error {
        eprintln!("HARNESS-ERROR {e}");
        crate::procsim::cleanup_scratch();
        return 2;
    }
    let known = load_known(w.property());
    let mut violations = 0;
    let mut known_hits = vec![];
    // every listed open finding is re-executed from its stored replay file
    for k in &known {
        if k.replay.is_empty() {
            continue;
        }
        let path = verif_root().join(&k.replay);
        let still = std::fs::read_to_string(&path)
            .ok()
            .and_then(|s| serde_json::from_str::<Value>(&s).ok())
            .and_then(|v| serde_json::from_value::<W::Case>(v["case"].clone()).ok())
            .map(|case| {
                let mut ctx = Ctx::new();
                matches!(w.execute(&case, &mut ctx), Ok(Outcome { violation: Some((ref s, _)), .. }) if *s == k.signature)
            });
        match still {
            Some(true) => {
                println!("KNOWN-FINDING: property={} {} [{}] replay={}", w.property(), k.what, k.signature, k.replay);
                known_hits.push(k.signature.clone());
            }
            Some(false) => println!("note: listed open finding no longer reproduces from {} (repaired?): property={} [{}]", k.replay, w.property(), k.signature),
            None => println!("note: cannot load stored replay {} of listed finding [{}]", k.replay, k.signature),
        }
    }
    for f in &r.found {
        if let Some(k) = known.iter().find(|k| k.signature == f.signature) {
            if !known_hits.contains(&f.signature) {
                println!("KNOWN-FINDING: property={} {} [{}]", w.property(), k.what, f.signature);
                known_hits.push(f.signature.clone());
            }
            println!("note: listed finding [{}] also met in the batch (first at run {} seed {})", f.signature, f.index, f.seed);
            continue;
        }
        violations += 1;
        let case: W::Case = serde_json::from_value(f.case.clone()).unwrap();
        let (min_case, execs) = minimise(w, &case, &f.signature);
        // the minimised case must fail the same way in a fresh execution
        let mut ctx = Ctx::new();
        let confirmed = matches!(w.execute(&min_case, &mut ctx), Ok(Outcome { violation: Some((ref s, _)), .. }) if *s == f.signature);
        let path = if confirmed {
            write_replay(w, f, &min_case, true, execs)
        } else {
            write_replay(w, f, &case, false, execs)
        };
        // the replay file must reproduce the violation in a fresh process
        let fresh = std::process::Command::new(std::env::current_exe().expect("exe"))
            .args(["replay", &path])
            .output()
            .map(|o| o.status.code() == Some(1) && String::from_utf8_lossy(&o.stdout).contains(&f.signature))
            .unwrap_or(false);
        println!("violation: {} :: {}", f.signature, f.message);
        println!("replay file {} ({}), reproduced in a fresh process: {}", path, if confirmed { "minimised" } else { "not minimised" }, fresh);
        println!("VIOLATION property={} replay={}", w.property(), path);
    }
    if let Some((sig, msg)) = w.batch_verdict(&r.acct) {
        if let Some(k) = known.iter().find(|k| k.signature == sig) {
            println!("KNOWN-FINDING: property={} {} [{}]", w.property(), k.what, sig);
            known_hits.push(sig.clone());
        } else if !r.capped && r.runs == plan.runs {
            violations += 1;
            let dir = verif_root().join("replays");
            let _ = std::fs::create_dir_all(&dir);
            let path = dir.join(format!("{}-batch-{}.json", w.property(), seed));
            let v = json!({"property": w.property(), "workload": w.name(), "signature": sig, "message": msg,
                "batch": {"seed": seed, "tier": tier.name(), "runs": plan.runs}});
            let _ = std::fs::write(&path, serde_json::to_string_pretty(&v).unwrap());
            println!("violation: {sig} :: {msg}");
            println!("VIOLATION property={} replay={}", w.property(), path.to_string_lossy());
        } else {
            println!("note: batch verdict not evaluated on an incomplete batch: {sig} :: {msg}");
        }
    }
    for k in &known {
        if !known_hits.contains(&k.signature) {
            println!(
                "note: listed open finding not reached in this batch: property={} [{}]",
                w.property(),
                k.signature
            );
        }
    }
    // evidence
    let hours = r.wall_s / 3600.0;
    let procs = r.acct["simulated_processes"].as_u64().unwrap_or(0);
    let mut cov = serde_json::Map::new();
    cov.insert("evaluations".into(), json!(r.evaluations));
    cov.insert("distinct_nontrivial".into(), json!(r.distinct_nontrivial));
    cov.insert("rule".into(), json!(w.rule()));
    cov.insert("samples".into(), json!(r.samples));
    cov.insert("exhaustive".into(), json!(w.exhaustive(tier) && !r.capped && r.runs == plan.runs));
    cov.insert("runs".into(), json!(r.runs));
    cov.insert("runs_planned".into(), json!(plan.runs));
    cov.insert("stopped_by_wall_cap".into(), json!(r.capped));
    cov.insert("runs_per_hour".into(), json!((r.runs as f64 / hours.max(1e-9)).round()));
    cov.insert("simulated_processes_per_hour".into(), json!((procs as f64 / hours.max(1e-9)).round()));
    cov.insert("seeds".into(), json!(format!("run i uses mix(VERIF_SEED={seed}, i), i in 0..{}", r.runs)));
    cov.insert("event_log_digest".into(), json!(format!("{:016x}", r.log_digest)));
    cov.insert("simulation".into(), acct_pretty(&r.acct));
    cov.insert("determinism_selftest".into(), det);
    cov.insert("real_vs_stub".into(), json!(REAL_STUB));
    cov.insert("known_findings_seen".into(), json!(known_hits));
    if let Some(o) = r.extra.as_object() {
        for (k, v) in o {
            cov.insert(k.clone(), v.clone());
        }
    }
    let ev = json!({
        "property_id": w.property(),
        "tier": tier.name(),
        "seed": seed,
        "level": w.level(),
        "coverage": Value::Object(cov),
        "assumptions": w.assumptions(),
        "wall_s": (r.wall_s * 100.0).round() / 100.0,
        "violations": violations,
    });
    // runs with overridden size or scope (debugging, sweeps) must not replace the evidence of the
    // registered command
    let overridden = std::env::var_os("VERIF_RUNS").is_some() || std::env::var_os("SCHED_ONLY").is_some();
    let evdir = if overridden { verif_root().join("evidence").join("scratch") } else { verif_root().join("evidence") };
    let _ = std::fs::create_dir_all(&evdir);
    let _ = std::fs::write(
        evdir.join(format!("{}.json", w.property())),
        serde_json::to_string_pretty(&ev).unwrap(),
    );
    println!(
        "{}: {} runs ({} distinct non-trivial), {} simulated processes, {:.1}s, violations={}",
        w.property(),
        r.runs,
        r.distinct_nontrivial,
        procs,
        r.wall_s,
        violations
    );
    crate::procsim::cleanup_scratch();
    if violations > 0 {
        1
    } else {
        0
    }
}

/// Re-execute a replay file in this (fresh) process.
pub fn replay<W: Workload>(w: &W, v: &Value) -> i32 {
    if !v["batch"].is_null() {
        // a batch-level (rate) violation: re-run the same batch and re-evaluate the verdict
        let tier = if v["batch"]["tier"] == "thorough" { Tier::Thorough } else { Tier::Quick };
        let plan = BatchPlan { runs: v["batch"]["runs"].as_u64().unwrap_or(1), wall_cap_s: 36000 };
        let r = run_batch(w, tier, v["batch"]["seed"].as_u64().unwrap_or(0), &plan);
        crate::procsim::cleanup_scratch();
        if let Some(e) = r.harness_error {
            eprintln!("HARNESS-ERROR {e}");
            return 2;
        }
        return match w.batch_verdict(&r.acct) {
            Some((sig, msg)) => {
                println!("violation: {sig} :: {msg}");
                println!("VIOLATION property={} replay={}", w.property(), v["__path"].as_str().unwrap_or("?"));
                1
            }
            None => {
                println!("replay: no violation (batch verdict holds)");
                0
            }
        };
    }
    let case: W::Case = match serde_json::from_value(v["case"].clone()) {
        Ok(c) => c,
        Err(e) => {
            eprintln!("HARNESS-ERROR cannot parse case: {e}");
            return 2;
        }
    };
    let mut ctx = Ctx::new();
    let r = w.execute(&case, &mut ctx);
    crate::procsim::cleanup_scratch();
    match r {
        Err(e) => {
            eprintln!("HARNESS-ERROR {}", e.0);
            2
        }
        Ok(out) => {
            for l in &out.log {
                println!("  {l}");
            }
            match out.violation {
                Some((sig, msg)) => {
                    println!("violation: {sig} :: {msg}");
                    println!(
                        "VIOLATION property={} replay={}",
                        w.property(),
                        v["__path"].as_str().unwrap_or("?")
                    );
                    1
                }
                None => {
                    println!("replay: no violation (property held on this case)");
                    0
                }
            }
        }
    }
}
