//! `persist` workload (C09): the durability pattern. The same data takes two routes to every
//! subcommand:
//!   in-memory : one simulated process builds the samples with ska's public API (integer width
//!               chosen from k, as the crate documentation shows), saves that array, and applies
//!               the operation to the array still in memory (`@inmem`, see simprog.rs);
//!   restart   : exit -> a new simulated process `ska X file.skf` on the file just saved, which
//!               has to decide the width from the bytes on disk ("try 64-bit, then 128-bit").
//! (The file is the one saved from exactly that in-memory array - same row order - as C09 words
//! it; independence from row order is C10's business. A file written by the `ska build` CLI is
//! checked for header, recorded width and loader acceptance.)
//! Results must agree for every valid k, including k >= 35 files whose k-mers all fit in 64 bits.

use std::collections::BTreeMap;

use serde::{Deserialize, Serialize};
use serde_json::{json, Value};

use crate::framework::{Ctx, Outcome, Tier, Workload};
use crate::gen::{gen_fits64_samples, gen_samples, gen_weed_fasta, GenomeOpts, Sample, VALID_K};
use crate::model::{columns, inspect, parse_fasta, SiteFilter};
use crate::procsim::{probe, run_proc, HarnessError, Proc, ProcOut, RunDir};
use crate::sched::{indel_records_weak, lo_columns_canonical};
use crate::util::{mix, Rng};

#[derive(Clone, Debug, Serialize, Deserialize, PartialEq)]
pub enum POp {
    Nk,
    Align { filter: SiteFilter, min_freq: String, ambig_missing: bool, ambig_mask: bool, no_gap_only: bool },
    Map { vcf: bool, ambig_mask: bool, repeat_mask: bool },
    Distance { min_freq: String, allow_ambig: bool },
    Weed {
        reverse: bool,
        #[serde(default)]
        ambig_missing: bool,
        #[serde(default)]
        ambig_mask: bool,
        /// --filter (cli spelling); empty = not given
        #[serde(default)]
        filter: String,
    },
    Delete { names: Vec<String> },
    /// merge with the second sample set, in both argument orders
    Merge,
    Lo { with_ref: bool },
    /// a table filtered down to zero k-mers (samples remain): save, reload, print, merge
    Emptied,
}
impl POp {
    fn kind(&self) -> &'static str {
        match self {
            POp::Nk => "nk",
            POp::Align { .. } => "align",
            POp::Map { .. } => "map",
            POp::Distance { .. } => "distance",
            POp::Weed { .. } => "weed",
            POp::Delete { .. } => "delete",
            POp::Merge => "merge",
            POp::Lo { .. } => "lo",
            POp::Emptied => "emptied",
        }
    }
}

#[derive(Clone, Debug, Serialize, Deserialize, PartialEq)]
pub struct PersistCase {
    pub k: usize,
    pub single_strand: bool,
    pub fits64: bool,
    pub samples: Vec<Sample>,
    /// a second file's samples (ordinary data) for merges
    pub samples2: Vec<Sample>,
    pub extra: BTreeMap<String, String>,
    pub ops: Vec<POp>,
    pub sim_seed: u64,
}

pub struct PersistWorkload;

fn b(x: bool) -> String {
    if x { "1".into() } else { "0".into() }
}

/// `nk --full-info` output normalised: header lines as they are, rows sorted
fn nk_norm(out: &[u8]) -> (Vec<String>, Vec<String>) {
    let s = String::from_utf8_lossy(out).to_string();
    let mut head = vec![];
    let mut rows = vec![];
    for l in s.lines() {
        if l.contains('\t') {
            rows.push(l.to_string())
        } else if !l.trim().is_empty() {
            head.push(l.to_string())
        }
    }
    rows.sort();
    (head, rows)
}

struct Ex<'a> {
    dir: &'a RunDir,
    c: &'a PersistCase,
    log: Vec<String>,
    nproc: u64,
}
impl<'a> Ex<'a> {
    fn run(&mut self, argv: Vec<String>) -> Result<ProcOut, HarnessError> {
        self.nproc += 1;
        let mut rng = Rng::new(mix(self.c.sim_seed, self.nproc));
        let p = Proc::varied(argv, &mut rng);
        run_proc(self.dir, &p, &mut self.log)
    }
    fn build(&mut self, out: &str, list: &str) -> Result<ProcOut, HarnessError> {
        let mut a = vec!["build".to_string(), "-o".into(), out.into(), "-k".into(), self.c.k.to_string(), "-f".into(), list.into()];
        if self.c.single_strand {
            a.push("--single-strand".into());
        }
        self.run(a)
    }
    /// in-memory side: build, save exactly that array as `f.skf` (overwriting the previous one),
    /// apply the operation in memory. The restart side then reads `f.skf` in a new process.
    fn inmem(&mut self, list: &str, op: Vec<String>) -> Result<ProcOut, HarnessError> {
        let mut a = vec!["@inmem".to_string(), self.c.k.to_string(), b(!self.c.single_strand), list.into(), "save=f.skf".into()];
        a.extend(op);
        self.run(a)
    }
}

type V = Option<(String, String)>;
fn v(sig: &str, msg: String) -> V {
    Some((sig.to_string(), msg))
}

impl Workload for PersistWorkload {
    type Case = PersistCase;
    fn property(&self) -> &'static str {
        "C09"
    }
    fn name(&self) -> &'static str {
        "persist"
    }
    fn rule(&self) -> String {
        "one run = one sample set at one of the 30 valid k (ordinary data, or for k >= 35 records of the form A^a + short tail so that every stored split k-mer fits in 64 bits) and a list of operations X in {nk --full-info, align, map aln/vcf, distance, weed, delete, merge in both argument orders, lo}; each X is computed in memory from the freshly built array (one simulated process, no file) and by the restart path ska build -> exit -> ska X file (fresh simulated processes with other hash seeds) and the results compared; the file must round-trip k, strand, names, rows and report the width it was written with. Non-trivial = the build succeeded and at least one operation was compared; distinct = distinct hash of (k, strand, inputs, operations)".into()
    }
    fn assumptions(&self) -> Vec<String> {
        vec![
            "the in-memory side uses build_and_merge::<u64> for k<=31 and ::<u128> otherwise, as lib.rs documents".into(),
            "row order is free (tables as maps, alignments as column multisets); ordered outputs (map, distance, lo -r) are compared byte for byte".into(),
        ]
    }
    fn generate(&self, seed: u64, _index: u64, tier: Tier) -> PersistCase {
        let mut rng = Rng::new(seed);
        let fits64 = rng.chance(35);
        let k = if fits64 {
            *rng.pick(&VALID_K[15..]) // 35..63
        } else if rng.chance(40) {
            *rng.pick(&[29usize, 31, 33, 35, 37])
        } else {
            *rng.pick(&VALID_K)
        };
        let n = if rng.chance(12) { 1 } else { rng.range(2, 6) };
        let mut o = GenomeOpts::swarm(&mut rng, k);
        if rng.chance(10) {
            // thousands of k-mers
            o.len = rng.range(2000, 5000);
        }
        let samples = if fits64 { gen_fits64_samples(&mut rng, n, k, "s") } else { gen_samples(&mut rng, n, k, &o, "s") };
        let n2 = rng.range(1, 3);
        let samples2 = if fits64 && rng.chance(40) { gen_fits64_samples(&mut rng, n2, k, "t") } else { gen_samples(&mut rng, n2, k, &o, "t") };
        let mut extra = BTreeMap::new();
        extra.insert("weed.fa".to_string(), gen_weed_fasta(&mut rng, &samples, k));
        let r = rng.pick(&samples);
        let joined: Vec<u8> = r.records.iter().flat_map(|x| x.1.clone()).collect();
        extra.insert("ref.fa".to_string(), crate::util::wrap_fasta("chr1", &joined, 60));
        let nm = rng.dna(k + 25);
        extra.insert("nomatch.fa".to_string(), crate::util::wrap_fasta("nm", &nm, 0));
        let nops = if tier == Tier::Quick { rng.range(3, 5) } else { rng.range(4, 8) };
        let names: Vec<String> = samples.iter().map(|s| s.name.clone()).collect();
        let mut ops = vec![POp::Nk];
        for _ in 0..nops {
            ops.push(match rng.below(10) {
                9 => POp::Emptied,
                0 => POp::Nk,
                1 => {
                    let filter = SiteFilter::ALL[rng.below(4)];
                    POp::Align { filter, min_freq: ["0", "0.5", "0.9", "1"][rng.below(4)].to_string(), ambig_missing: rng.chance(30), ambig_mask: rng.chance(30), no_gap_only: filter == SiteFilter::NoConst && rng.chance(30) }
                }
                2 | 3 => POp::Map { vcf: rng.chance(50), ambig_mask: rng.chance(30), repeat_mask: rng.chance(30) },
                4 => POp::Distance { min_freq: ["0", "0.5", "1"][rng.below(3)].to_string(), allow_ambig: rng.chance(40) },
                5 => {
                    let flags = rng.chance(50);
                    POp::Weed {
                        reverse: rng.chance(40),
                        ambig_missing: flags && rng.chance(40),
                        ambig_mask: flags && rng.chance(40),
                        filter: if flags && rng.chance(50) { ["no-filter", "no-const", "no-ambig", "no-ambig-or-const"][rng.below(4)].to_string() } else { String::new() },
                    }
                }
                6 if n >= 2 => {
                    let sub = rng.proper_subset(n);
                    POp::Delete { names: sub.iter().map(|i| names[*i].clone()).collect() }
                }
                6 => POp::Nk,
                7 => POp::Merge,
                _ => POp::Lo { with_ref: k >= 15 && rng.chance(50) },
            });
        }
        PersistCase { k, single_strand: rng.chance(35), fits64, samples, samples2, extra, ops, sim_seed: rng.next_u64() >> 1 }
    }

    fn execute(&self, c: &PersistCase, ctx: &mut Ctx) -> Result<Outcome, HarnessError> {
        let dir = &ctx.dir;
        for s in c.samples.iter().chain(c.samples2.iter()) {
            dir.write(&s.file(), &s.bytes());
        }
        for (n, d) in &c.extra {
            dir.write(n, d.as_bytes());
        }
        let l1: String = c.samples.iter().map(|s| format!("{}\t{}\n", s.name, s.file())).collect();
        let l2: String = c.samples2.iter().map(|s| format!("{}\t{}\n", s.name, s.file())).collect();
        dir.write("l1.txt", l1.as_bytes());
        dir.write("l2.txt", l2.as_bytes());
        let mut ex = Ex { dir, c, log: vec![format!("persist case k={} ss={} fits64={} ops={}", c.k, c.single_strand, c.fits64, c.ops.len())], nproc: 0 };
        let mut out = Outcome::default();
        let rb = ex.build("f", "l1.txt")?;
        if !rb.ok() {
            ex.log.push(format!("build refused: {}", rb.stderr_tail()));
            out.log = ex.log;
            return Ok(out);
        }
        let want_bits = if c.k <= 31 { 64 } else { 128 };
        let mut viol: V = None;
        match inspect(&dir.p("f.skf")) {
            Err(e) => viol = v("persist:file-unreadable", e),
            Ok(i) => {
                if i.k_bits != want_bits {
                    // which width a file records is not a result: C09 demands that no RESULT depends
                    // on the width, and the operation comparisons below decide that
                    probe("c09_file_records_another_width_than_k_suggests");
                }
                if c.k > 31 && i.table.rows.keys().all(|x| *x <= u64::MAX as u128) {
                    probe("c09_128bit_file_whose_kmers_all_fit_64");
                }
                if i.table.k != c.k || i.table.rc == c.single_strand || i.table.names != c.samples.iter().map(|s| s.name.clone()).collect::<Vec<_>>() {
                    viol = v("persist:header-not-preserved", i.table.summary());
                }
            }
        }
        // which loader accepts the saved file (the two calls every subcommand starts with)
        if viol.is_none() {
            let r64 = ex.run(vec!["@loadas".into(), "64".into(), "f.skf".into()])?;
            let r128 = ex.run(vec!["@loadas".into(), "128".into(), "f.skf".into()])?;
            probe(&format!("c09_loader64_{}_loader128_{}_k{}", if r64.ok() { "accepts" } else { "rejects" }, if r128.ok() { "accepts" } else { "rejects" }, if c.k <= 31 { "le31" } else { "gt31" }));
            if c.k > 31 && r64.ok() {
                // not a violation by itself: the operations below decide whether any result depends on it
                probe("c09_64bit_loader_accepts_a_128bit_file");
            }
            if !r64.ok() && !r128.ok() {
                viol = v("persist:file-unreadable", "neither loader accepts a freshly built file".into());
            }
        }
        let mut built2 = false;
        let mut compared = 0;
        for (oi, op) in c.ops.iter().enumerate() {
            if viol.is_some() {
                break;
            }
            let kind = op.kind();
            ex.log.push(format!("op {oi}: {op:?}"));
            let differs = |what: &str| v(&format!("persist:{kind}-differs"), format!("op {oi} {op:?}: {what} differs between the in-memory array and the reloaded file (k={} fits64={})", c.k, c.fits64));
            let status = |a: &ProcOut, bb: &ProcOut| -> V {
                // success or refusal must agree; HOW a refusal is reported (a panic of the library
                // call, an error message and exit 1 of the command line) is nobody's property
                let class = |o: &ProcOut| if o.ok() { 0 } else if o.refused() { 1 } else { 2 };
                if class(a) != class(bb) || (class(a) == 2 && a.status_str() != bb.status_str()) {
                    v(&format!("persist:{kind}-status-differs"), format!("op {oi} {op:?}: in-memory {} / reloaded file {} (k={} fits64={}): {}", a.status_str(), bb.status_str(), c.k, c.fits64, if a.ok() { bb.stderr_tail() } else { a.stderr_tail() }))
                } else {
                    None
                }
            };
            match op {
                POp::Nk => {
                    let a = ex.inmem("l1.txt", vec!["nk".into()])?;
                    let r = ex.run(vec!["nk".into(), "f.skf".into(), "--full-info".into()])?;
                    viol = status(&a, &r);
                    if viol.is_none() && a.ok() && nk_norm(&a.stdout) != nk_norm(&r.stdout) {
                        viol = differs("nk --full-info (header or rows)");
                    }
                }
                POp::Align { filter, min_freq, ambig_missing, ambig_mask, no_gap_only } => {
                    let a = ex.inmem("l1.txt", vec!["align".into(), filter.cli().into(), min_freq.clone(), b(*ambig_missing), b(*ambig_mask), b(*no_gap_only)])?;
                    let mut args = vec!["align".to_string(), "f.skf".into(), "--filter".into(), filter.cli().into(), "--min-freq".into(), min_freq.clone()];
                    if *ambig_missing {
                        args.push("--filter-ambig-as-missing".into());
                    }
                    if *ambig_mask {
                        args.push("--ambig-mask".into());
                    }
                    if *no_gap_only {
                        args.push("--no-gap-only-sites".into());
                    }
                    let r = ex.run(args)?;
                    viol = status(&a, &r);
                    if viol.is_none() && a.ok() {
                        let pa = parse_fasta(&a.stdout).and_then(|(n, s)| columns(&s).map(|c| (n, c)));
                        let pr = parse_fasta(&r.stdout).and_then(|(n, s)| columns(&s).map(|c| (n, c)));
                        if pa.is_err() || pa != pr {
                            viol = differs("alignment (names, column multiset)");
                        }
                    }
                }
                POp::Map { vcf, ambig_mask, repeat_mask } => {
                    let fmt = if *vcf { "vcf" } else { "aln" };
                    let a = ex.inmem("l1.txt", vec!["map".into(), "ref.fa".into(), fmt.into(), b(*ambig_mask), b(*repeat_mask)])?;
                    let mut args = vec!["map".to_string(), "ref.fa".into(), "f.skf".into(), "-f".into(), fmt.into()];
                    if *ambig_mask {
                        args.push("--ambig-mask".into());
                    }
                    if *repeat_mask {
                        args.push("--repeat-mask".into());
                    }
                    let r = ex.run(args)?;
                    viol = status(&a, &r);
                    // (meta lines may carry a file name or a command line, which differ between the sides)
                    let body = |o: &[u8]| String::from_utf8_lossy(o).lines().filter(|l| !l.starts_with("##")).map(|l| l.to_string()).collect::<Vec<_>>();
                    if viol.is_none() && a.ok() && body(&a.stdout) != body(&r.stdout) {
                        viol = differs("map output");
                    }
                }
                POp::Distance { min_freq, allow_ambig } => {
                    let a = ex.inmem("l1.txt", vec!["distance".into(), min_freq.clone(), b(*allow_ambig)])?;
                    let mut args = vec!["distance".to_string(), "f.skf".into(), "--min-freq".into(), min_freq.clone()];
                    if *allow_ambig {
                        args.push("--allow-ambiguous".into());
                    }
                    let r = ex.run(args)?;
                    viol = status(&a, &r);
                    if viol.is_none() && a.ok() {
                        // rows are summed in different orders: compare the SNP column with a tolerance of
                        // one unit in the last printed place, the (rational) mismatch column exactly
                        let parse = |o: &[u8]| -> Vec<(String, String, f64, String)> {
                            String::from_utf8_lossy(o).lines().skip(1).filter_map(|l| {
                                let f: Vec<&str> = l.split('\t').collect();
                                if f.len() == 4 { Some((f[0].to_string(), f[1].to_string(), f[2].parse().unwrap_or(-1.0), f[3].to_string())) } else { None }
                            }).collect()
                        };
                        let (pa, pr) = (parse(&a.stdout), parse(&r.stdout));
                        let same = pa.len() == pr.len() && pa.iter().zip(pr.iter()).all(|(x, y)| x.0 == y.0 && x.1 == y.1 && (x.2 - y.2).abs() <= 0.0101 && x.3 == y.3);
                        if !same {
                            viol = differs("distances");
                        }
                    }
                }
                POp::Weed { reverse, ambig_missing, ambig_mask, filter } => {
                    // `ska weed` without --filter means no-filter
                    let f = if filter.is_empty() { "no-filter".to_string() } else { filter.clone() };
                    let a = ex.inmem("l1.txt", vec!["weed".into(), "weed.fa".into(), b(*reverse), b(*ambig_missing), b(*ambig_mask), f])?;
                    let mut args = vec!["weed".to_string(), "f.skf".into(), "weed.fa".into(), "-o".into(), "w.skf".into(), "--min-freq".into(), "0".into()];
                    if *reverse {
                        args.push("--reverse".into());
                    }
                    if *ambig_missing {
                        args.push("--filter-ambig-as-missing".into());
                    }
                    if *ambig_mask {
                        args.push("--ambig-mask".into());
                    }
                    if !filter.is_empty() {
                        args.push("--filter".into());
                        args.push(filter.clone());
                    }
                    if *ambig_missing || *ambig_mask || !filter.is_empty() {
                        probe("persist_weed_with_filter_flags");
                    }
                    let r = ex.run(args)?;
                    viol = status(&a, &r);
                    if viol.is_none() && a.ok() {
                        let n = ex.run(vec!["nk".into(), "w.skf".into(), "--full-info".into()])?;
                        if !n.ok() || nk_norm(&a.stdout) != nk_norm(&n.stdout) {
                            viol = differs("weeded table");
                        }
                    }
                }
                POp::Delete { names } => {
                    let mut o = vec!["delete".to_string()];
                    o.extend(names.iter().cloned());
                    let a = ex.inmem("l1.txt", o)?;
                    let mut args = vec!["delete".to_string(), "--skf-file".into(), "f.skf".into(), "-o".into(), "d".into()];
                    args.extend(names.iter().cloned());
                    let r = ex.run(args)?;
                    viol = status(&a, &r);
                    if viol.is_none() && a.ok() {
                        let n = ex.run(vec!["nk".into(), "d.skf".into(), "--full-info".into()])?;
                        if !n.ok() || nk_norm(&a.stdout) != nk_norm(&n.stdout) {
                            viol = differs("table after delete");
                        }
                    }
                }
                POp::Merge => {
                    if !built2 {
                        let r2 = ex.build("g", "l2.txt")?;
                        if !r2.ok() {
                            continue;
                        }
                        built2 = true;
                    }
                    let a = ex.inmem("l1.txt", vec!["merge".into(), "l2.txt".into()])?;
                    let r1 = ex.run(vec!["merge".into(), "f.skf".into(), "g.skf".into(), "-o".into(), "m1".into()])?;
                    let r2 = ex.run(vec!["merge".into(), "g.skf".into(), "f.skf".into(), "-o".into(), "m2".into()])?;
                    viol = status(&a, &r1).or(status(&a, &r2));
                    if viol.is_none() && a.ok() {
                        let n = ex.run(vec!["nk".into(), "m1.skf".into(), "--full-info".into()])?;
                        if !n.ok() || nk_norm(&a.stdout) != nk_norm(&n.stdout) {
                            viol = differs("merged table");
                        } else {
                            // both argument orders agree up to column order
                            match (inspect(&dir.p("m1.skf")), inspect(&dir.p("m2.skf"))) {
                                (Ok(x), Ok(y)) => {
                                    let perm: Option<Vec<usize>> = x.table.names.iter().map(|nm| y.table.names.iter().position(|z| z == nm)).collect();
                                    let ok = match perm {
                                        Some(p) => x.table.rows.len() == y.table.rows.len() && x.table.rows.iter().all(|(kk, row)| y.table.rows.get(kk).map(|r2| p.iter().map(|j| r2[*j]).collect::<Vec<u8>>() == *row).unwrap_or(false)),
                                        None => false,
                                    };
                                    if x.k_bits != y.k_bits {
                                        probe("c09_merge_orders_record_different_widths");
                                    }
                                    if !ok {
                                        viol = v("persist:merge-order-dependent", format!("merge f g and merge g f disagree (k={} fits64={}; k_bits {} vs {})", c.k, c.fits64, x.k_bits, y.k_bits));
                                    }
                                    if x.k_bits != want_bits {
                                        probe("c09_file_records_another_width_than_k_suggests");
                                    }
                                }
                                _ => viol = v("persist:file-unreadable", "merged file unreadable".into()),
                            }
                        }
                    }
                }
                POp::Emptied => {
                    let a = ex.inmem("l1.txt", vec!["emptied".into(), "nomatch.fa".into(), "e.skf".into()])?;
                    if !a.ok() {
                        viol = v("persist:emptied-fails", format!("op {oi}: emptying a table in memory ended with {}: {}", a.status_str(), a.stderr_tail()));
                    } else {
                        let r = ex.run(vec!["nk".into(), "e.skf".into(), "--full-info".into()])?;
                        viol = status(&a, &r);
                        if viol.is_none() && nk_norm(&a.stdout) != nk_norm(&r.stdout) {
                            viol = differs("the emptied table (nk --full-info)");
                        }
                        if viol.is_none() {
                            if !built2 {
                                let r2 = ex.build("g", "l2.txt")?;
                                built2 = r2.ok();
                            }
                            if built2 {
                                // both argument orders succeed and hold every sample of both files
                                let r1 = ex.run(vec!["merge".into(), "e.skf".into(), "g.skf".into(), "-o".into(), "em1".into()])?;
                                let r2 = ex.run(vec!["merge".into(), "g.skf".into(), "e.skf".into(), "-o".into(), "em2".into()])?;
                                if !r1.ok() || !r2.ok() {
                                    viol = v("persist:emptied-merge-fails", format!("merging the reloaded emptied table: {} / {}", r1.status_str(), r2.status_str()));
                                } else if let (Ok(x), Ok(y), Ok(g), Ok(e)) = (inspect(&dir.p("em1.skf")), inspect(&dir.p("em2.skf")), inspect(&dir.p("g.skf")), inspect(&dir.p("e.skf"))) {
                                    // (at small k the "no match" sequence does match a few k-mers: the table
                                    // is then nearly, not completely, empty - the model merge covers both)
                                    if e.table.rows.is_empty() {
                                        probe("c09_table_with_samples_and_zero_kmers");
                                    }
                                    let m1 = crate::model::Table::merge(&[&e.table, &g.table]);
                                    let m2 = crate::model::Table::merge(&[&g.table, &e.table]);
                                    if m1.as_ref() != Ok(&x.table) || m2.as_ref() != Ok(&y.table) {
                                        viol = v("persist:emptied-merge-differs", format!("merge of a reloaded (nearly) emptied table with another file differs from the table merge: {} / {}", m1.map(|m| m.diff(&x.table)).unwrap_or_default(), m2.map(|m| m.diff(&y.table)).unwrap_or_default()));
                                    }
                                }
                            }
                        }
                    }
                }
                POp::Lo { with_ref } => {
                    let rf = if *with_ref { "ref.fa" } else { "-" };
                    let a = ex.inmem("l1.txt", vec!["lo".into(), "lo_a".into(), rf.into(), "0.3".into()])?;
                    let mut args = vec!["lo".to_string(), "f.skf".into(), "lo_b".into(), "-m".into(), "0.3".into()];
                    if *with_ref {
                        args.push("-r".into());
                        args.push("ref.fa".into());
                    }
                    let r = ex.run(args)?;
                    viol = status(&a, &r);
                    if viol.is_none() && a.ok() {
                        if *with_ref {
                            for suf in ["_snps.fas", "_snps.vcf", "_pseudo_genomes.fas", "_indels.vcf"] {
                                let body = |d: Option<Vec<u8>>| d.map(|d| String::from_utf8_lossy(&d).lines().filter(|l| !l.starts_with("##")).map(|l| l.to_string()).collect::<Vec<_>>());
                                if body(dir.read(&format!("lo_a{suf}"))) != body(dir.read(&format!("lo_b{suf}"))) {
                                    viol = differs(&format!("lo -r output {suf}"));
                                    break;
                                }
                            }
                        } else {
                            let ca = dir.read("lo_a_snps.fas").map(|d| lo_columns_canonical(&d));
                            let cb = dir.read("lo_b_snps.fas").map(|d| lo_columns_canonical(&d));
                            let ia = dir.read("lo_a_indels.vcf").map(|d| indel_records_weak(&d));
                            let ib = dir.read("lo_b_indels.vcf").map(|d| indel_records_weak(&d));
                            if ca.is_none() || ca != cb || ia != ib {
                                viol = differs("lo output (up to order and strand)");
                            }
                        }
                    }
                }
            }
            compared += 1;
            probe(&format!("c09_compared_{kind}"));
        }
        out.violation = viol;
        out.nontrivial = compared > 0;
        out.log = ex.log;
        Ok(out)
    }

    fn shrink(&self, c: &PersistCase) -> Vec<PersistCase> {
        let mut v = vec![];
        for i in (0..c.ops.len()).rev() {
            let mut d = c.clone();
            d.ops.remove(i);
            v.push(d);
        }
        if c.samples.len() > 1 {
            for i in 0..c.samples.len() {
                let mut d = c.clone();
                let nm = d.samples.remove(i).name;
                for op in d.ops.iter_mut() {
                    if let POp::Delete { names } = op {
                        names.retain(|x| *x != nm);
                    }
                }
                d.ops.retain(|op| !matches!(op, POp::Delete { names } if names.is_empty() || names.len() >= d.samples.len()));
                v.push(d);
            }
        }
        for i in 0..c.samples.len() {
            if c.samples[i].records.len() > 1 {
                for j in 0..c.samples[i].records.len() {
                    let mut d = c.clone();
                    d.samples[i].records.remove(j);
                    v.push(d);
                }
            }
        }
        if c.samples2.len() > 1 {
            let mut d = c.clone();
            d.samples2.truncate(1);
            v.push(d);
        }
        if c.sim_seed > 9 {
            let mut d = c.clone();
            d.sim_seed = 1;
            v.push(d);
        }
        v
    }
    fn case_key(&self, c: &PersistCase) -> u64 {
        let mut d = c.clone();
        d.sim_seed = 0;
        crate::util::fnv_str(&serde_json::to_string(&d).unwrap_or_default())
    }
    fn sample_view(&self, c: &PersistCase) -> Value {
        json!({"k": c.k, "single_strand": c.single_strand, "fits64": c.fits64,
            "samples": c.samples.iter().map(|s| json!({"name": s.name, "records": s.records.iter().map(|r| String::from_utf8_lossy(&r.1).to_string()).collect::<Vec<_>>()})).take(2).collect::<Vec<_>>(),
            "ops": c.ops})
    }
}
