//! `damage` workload (C19): fault enumeration over stored .skf files.
//!   Loads  - every proper prefix and every single-bit flip (by slices of the byte range) of a
//!            valid file is written to the simulated disk and given to the two loaders every
//!            subcommand starts with; each must reject it or decode exactly the original content;
//!   Procs  - a seeded sample of damaged images is given to every subcommand as simulated
//!            processes: a rejected image must make the command fail and leave the disk untouched;
//!   Crash  - crash_at_byte(n) (RLIMIT_FSIZE) is injected into real build / merge / delete / weed
//!            writers, including the in-place overwrite; what is left must be a proper prefix of
//!            what the uncrashed process writes and must be rejected by every later subcommand.

use std::collections::BTreeMap;

use serde::{Deserialize, Serialize};
use serde_json::{json, Value};
use ska::merge_ska_array::MergeSkaArray;
use ska::ska_dict::bit_encoding::UInt;

use crate::framework::{Ctx, Outcome, Tier, Workload};
use crate::gen::{gen_fits64_samples, gen_samples, GenomeOpts, Sample};
use crate::procsim::{fault, probe, probe_n, run_proc, HarnessError, Proc, ProcOut, RunDir};
use crate::util::{mix, wrap_fasta, Rng};

#[derive(Clone, Debug, Serialize, Deserialize, PartialEq)]
pub struct FileSpec {
    pub kind: String,
    pub k: usize,
    pub single_strand: bool,
    pub n: usize,
    pub len: usize,
    pub gen_seed: u64,
}

#[derive(Clone, Debug, Serialize, Deserialize, PartialEq)]
pub enum Mode {
    /// slice `slice` of `of` of the byte range; prefixes at every `prefix_every`-th length;
    /// all 8 bits of each byte, or one bit chosen from `bit_seed`
    Loads { slice: usize, of: usize, prefix_every: usize, all_bits: bool, bit_seed: u64 },
    /// `count` damaged images drawn from `seed`, each given to every subcommand
    Procs { seed: u64, count: usize },
    /// crash the writer of `op` at `count` byte offsets drawn from `seed`
    Crash { op: String, seed: u64, count: usize },
}

#[derive(Clone, Debug, Serialize, Deserialize, PartialEq)]
pub struct DamageCase {
    pub file: FileSpec,
    pub mode: Mode,
    pub sim_seed: u64,
}

pub struct DamageWorkload {
    pub base: u64,
}

/// what a loader made of a file: k, strand, names, rows, and a digest of the bytes the loaded
/// array is saved as again - everything the file stores, including what no accessor shows (the
/// per-row counts, the recorded width and version)
type Content = (usize, bool, Vec<String>, Vec<(u128, Vec<u8>)>, u64);

fn load_as<IntT: for<'a> UInt<'a> + Into<u128>>(path: &str) -> Result<Content, String> {
    let r = std::panic::catch_unwind(|| {
        MergeSkaArray::<IntT>::load(path).map(|a| {
            let tmp = format!("{path}.resaved");
            let digest = match a.save(&tmp) {
                Ok(()) => crate::util::fnv(&std::fs::read(&tmp).unwrap_or_default()),
                Err(_) => 0,
            };
            let _ = std::fs::remove_file(&tmp);
            (a.kmer_len(), a.rc(), a.names().clone(), a.iter().map(|(k, v)| (k.into(), v)).collect::<Vec<_>>(), digest)
        })
    });
    match r {
        Ok(Ok(c)) => Ok(c),
        Ok(Err(e)) => Err(e.to_string()),
        Err(_) => {
            probe("c19_loader_panicked");
            Err("panicked".into())
        }
    }
}

/// (byte offset -> region name) for a snappy frame-format stream
fn regions(data: &[u8]) -> Vec<&'static str> {
    let mut r = vec!["beyond-last-chunk"; data.len()];
    let mut pos = 0;
    while pos + 4 <= data.len() {
        let ty = data[pos];
        let len = data[pos + 1] as usize | (data[pos + 2] as usize) << 8 | (data[pos + 3] as usize) << 16;
        r[pos] = "chunk-type";
        for x in r.iter_mut().take(pos + 4).skip(pos + 1) {
            *x = "chunk-length";
        }
        let end = (pos + 4 + len).min(data.len());
        for (i, x) in r.iter_mut().enumerate().take(end).skip(pos + 4) {
            *x = if ty == 0xff {
                "stream-identifier"
            } else if i < pos + 8 {
                "crc"
            } else {
                "payload"
            };
        }
        pos = end;
    }
    r
}
/// length of the stream a snappy frame-format file decompresses to (from the chunk headers)
pub fn uncompressed_len(data: &[u8]) -> usize {
    let (mut pos, mut total) = (0, 0);
    while pos + 4 <= data.len() {
        let len = data[pos + 1] as usize | (data[pos + 2] as usize) << 8 | (data[pos + 3] as usize) << 16;
        match data[pos] {
            0x00 if pos + 8 < data.len() => {
                // after the 4 checksum bytes: the uncompressed length as a little-endian base-128 varint
                let (mut v, mut shift, mut i) = (0usize, 0, pos + 8);
                while i < data.len() {
                    v |= ((data[i] & 0x7f) as usize) << shift;
                    if data[i] & 0x80 == 0 {
                        break;
                    }
                    shift += 7;
                    i += 1;
                }
                total += v;
            }
            0x01 => total += len.saturating_sub(4),
            _ => {}
        }
        pos += 4 + len;
    }
    total
}
pub fn frame_ends(data: &[u8]) -> Vec<usize> {
    let mut v = vec![];
    let mut pos = 0;
    while pos + 4 <= data.len() {
        let len = data[pos + 1] as usize | (data[pos + 2] as usize) << 8 | (data[pos + 3] as usize) << 16;
        pos = (pos + 4 + len).min(data.len());
        v.push(pos);
    }
    v
}

impl DamageWorkload {
    fn files(&self, tier: Tier) -> Vec<FileSpec> {
        let g = |i: u64| mix(self.base, 0xDA3A6E + i);
        let mut v = vec![
            FileSpec { kind: "small64".into(), k: 15, single_strand: false, n: 3, len: 80, gen_seed: g(1) },
            FileSpec { kind: "small128".into(), k: 41, single_strand: true, n: 2, len: 150, gen_seed: g(2) },
            FileSpec { kind: "fits64".into(), k: 37, single_strand: false, n: 2, len: 0, gen_seed: g(3) },
            FileSpec { kind: "weeded64".into(), k: 21, single_strand: false, n: 3, len: 110, gen_seed: g(4) },
            FileSpec { kind: "multiframe".into(), k: 31, single_strand: false, n: 8, len: 2700, gen_seed: g(5) },
            // one sample, ~4000 rows at k=63: the k-mer list alone fills a 64 KiB frame with random
            // 124-bit values, which snappy stores as an UNCOMPRESSED chunk (checksummed, but handled
            // on another code path of the decoder)
            FileSpec { kind: "stored128".into(), k: 63, single_strand: true, n: 1, len: 4200, gen_seed: g(9) },
            // two frames, the second holding only the last few hundred bytes of the serialised
            // array: damage confined to a small last frame, i.e. to whatever the format stores last
            // (the genome length is stepped until the uncompressed length lands just past 64 KiB)
            FileSpec { kind: "tailframe".into(), k: 31, single_strand: false, n: 2, len: 5200, gen_seed: g(10) },
            // two samples, one of them holding two copies of the genome that differ every ~150
            // bases (so its middle bases are ambiguity codes at some dozens of rows), with a row count
            // that puts the 64 KiB frame boundary inside the array of bases: an in-place
            // `weed --ambig-mask` rewrites bases in both frames and keeps every offset of the file
            FileSpec { kind: "ambigframes".into(), k: 31, single_strand: false, n: 2, len: 4700, gen_seed: g(11) },
        ];
        if tier == Tier::Thorough {
            v.push(FileSpec { kind: "small128k63".into(), k: 63, single_strand: false, n: 2, len: 200, gen_seed: g(6) });
            v.push(FileSpec { kind: "small64k5".into(), k: 5, single_strand: true, n: 4, len: 60, gen_seed: g(7) });
            v.push(FileSpec { kind: "multiframe128".into(), k: 33, single_strand: false, n: 6, len: 4200, gen_seed: g(8) });
        }
        v
    }
    fn slices(kind: &str) -> usize {
        if kind.starts_with("multiframe") || kind == "tailframe" || kind == "ambigframes" {
            96
        } else if kind == "stored128" {
            128
        } else {
            4
        }
    }
    fn plan(&self, tier: Tier) -> Vec<(FileSpec, Mode)> {
        let mut v = vec![];
        let files = self.files(tier);
        for f in &files {
            let s = Self::slices(&f.kind);
            // the large stored-chunk file is sampled at the quick tier (every byte with one seeded bit,
            // every 16th prefix) and enumerated completely at the thorough tier
            let complete = tier == Tier::Thorough || !matches!(f.kind.as_str(), "stored128" | "tailframe" | "ambigframes");
            for i in 0..s {
                v.push((f.clone(), Mode::Loads { slice: i, of: s, prefix_every: if complete { 1 } else { 16 }, all_bits: complete, bit_seed: mix(self.base, i as u64) }));
            }
            if !complete && f.kind == "tailframe" {
                // the last sixteenth of the file (its small last frame and the end of the one before)
                // completely at the quick tier too
                for i in s - s / 16..s {
                    v.push((f.clone(), Mode::Loads { slice: i, of: s, prefix_every: 1, all_bits: true, bit_seed: 0 }));
                }
            }
        }
        let (np, nc) = if tier == Tier::Quick { (10, 8) } else { (120, 96) };
        for i in 0..np {
            let f = &files[i % 4]; // the small files; the multi-frame one below
            v.push((f.clone(), Mode::Procs { seed: mix(self.base, 1000 + i as u64), count: 6 }));
        }
        v.push((files[4].clone(), Mode::Procs { seed: mix(self.base, 999), count: if tier == Tier::Quick { 4 } else { 40 } }));
        // the shape-preserving in-place rewrite on the file made for it
        for i in 0..if tier == Tier::Quick { 2 } else { 12 } {
            v.push((files[7].clone(), Mode::Crash { op: "mask".into(), seed: mix(self.base, 3000 + i as u64), count: 4 }));
        }
        for i in 0..nc {
            let f = &files[i % 5];
            let op = ["delete", "weed", "merge", "build"][(i / 5 + i) % 4];
            v.push((f.clone(), Mode::Crash { op: op.into(), seed: mix(self.base, 2000 + i as u64), count: if f.kind.starts_with("multiframe") { 3 } else { 5 } }));
        }
        v
    }
}

fn samples_for(f: &FileSpec) -> Vec<Sample> {
    let mut rng = Rng::new(f.gen_seed);
    if f.kind == "fits64" {
        return gen_fits64_samples(&mut rng, f.n, f.k, "s");
    }
    if f.kind == "ambigframes" {
        let g = rng.dna(f.len);
        let mut g2 = g.clone();
        let mut p = 60;
        while p + 60 < g2.len() {
            g2[p] = b"ACGT"[(b"ACGT".iter().position(|b| *b == g2[p]).unwrap() + 1 + rng.below(3)) % 4];
            p += rng.range(110, 190);
        }
        let mut g3 = g.clone();
        for _ in 0..6 {
            let q = rng.below(g3.len());
            g3[q] = b"ACGT"[(b"ACGT".iter().position(|b| *b == g3[q]).unwrap() + 1) % 4];
        }
        return vec![
            Sample { name: "s0".into(), records: vec![("a".into(), g), ("b".into(), g2)], wrap: 70, path: None, lower: false },
            Sample { name: "s1".into(), records: vec![("a".into(), g3)], wrap: 70, path: None, lower: false },
        ];
    }
    let mut o = GenomeOpts::plain(f.len);
    o.snp_sites = 4;
    o.deletions = true;
    o.repeats = !f.kind.starts_with("multiframe");
    o.palindromes = f.kind == "small64";
    gen_samples(&mut rng, f.n, f.k, &o, "s")
}

struct Ex<'a> {
    dir: &'a RunDir,
    c: &'a DamageCase,
    log: Vec<String>,
    nproc: u64,
}
impl<'a> Ex<'a> {
    /// every simulated process of this workload is deterministic in its seed, so that an uncrashed
    /// run and a crashed run of the same command write the same byte stream
    fn run_seeded(&mut self, argv: Vec<String>, seed: u64, fsize: Option<u64>) -> Result<ProcOut, HarnessError> {
        self.run_faulty(argv, seed, fsize, false)
    }
    fn run_faulty(&mut self, argv: Vec<String>, seed: u64, fsize: Option<u64>, as_error: bool) -> Result<ProcOut, HarnessError> {
        self.nproc += 1;
        let mut p = Proc::plain(argv, seed);
        p.fsize = fsize;
        p.fsize_error = as_error;
        run_proc(self.dir, &p, &mut self.log)
    }
    fn run(&mut self, argv: Vec<String>) -> Result<ProcOut, HarnessError> {
        let s = mix(self.c.sim_seed, self.nproc + 1) >> 1;
        self.run_seeded(argv, s, None)
    }
    fn build_args(&self, out: &str, samples: &[Sample]) -> Vec<String> {
        let mut a = vec!["build".to_string(), "-o".into(), out.into(), "-k".into(), self.c.file.k.to_string()];
        if self.c.file.single_strand {
            a.push("--single-strand".into());
        }
        a.extend(samples.iter().map(|s| s.file()));
        a
    }
    /// produce the valid file `orig.skf` (and `good.skf`, a second valid file with other samples)
    fn make_files(&mut self) -> Result<Option<Vec<Sample>>, HarnessError> {
        if self.c.file.kind == "tailframe" {
            // the uncompressed length grows by about u/len bytes per base: step straight to the
            // middle of the window, then correct (a handful of builds)
            let mut len = self.c.file.len;
            for _t in 0..40 {
                let mut f = self.c.file.clone();
                f.len = len;
                let samples = samples_for(&f);
                for s in &samples {
                    self.dir.write(&s.file(), &s.bytes());
                }
                let r = self.run_seeded(self.build_args("orig", &samples), self.c.file.gen_seed >> 1, None)?;
                if !r.ok() {
                    return Ok(None);
                }
                let u = uncompressed_len(&self.dir.read("orig.skf").unwrap_or_default());
                if u > 65536 && (150..=1500).contains(&(u % 65536)) {
                    probe("c19_tailframe_last_frame_holds_under_1500_bytes");
                    return Ok(Some(samples));
                }
                let per_base = (u / len.max(1)).max(1);
                let want = if u < 65536 + 800 { 65536 + 800 } else { (u / 65536) * 65536 + 800 };
                if want > u {
                    len += ((want - u) / per_base).max(1);
                } else {
                    len = len.saturating_sub(((u - want) / per_base).max(1)).max(4 * self.c.file.k);
                }
            }
            return Ok(None);
        }
        if self.c.file.kind == "ambigframes" {
            // rows R with 9R < 64 KiB < 11R (k-mer list, then two bytes of bases per row), with margin
            let mut len = self.c.file.len;
            for _t in 0..40 {
                let mut f = self.c.file.clone();
                f.len = len;
                let samples = samples_for(&f);
                for s in &samples {
                    self.dir.write(&s.file(), &s.bytes());
                }
                let r = self.run_seeded(self.build_args("orig", &samples), self.c.file.gen_seed >> 1, None)?;
                if !r.ok() {
                    return Ok(None);
                }
                let p = self.dir.p("orig.skf");
                let rows = load_as::<u64>(p.to_str().unwrap()).map(|c| c.3.len()).unwrap_or(0);
                if (6250..=6950).contains(&rows) {
                    probe("c19_ambigframes_frame_boundary_inside_the_bases");
                    return Ok(Some(samples));
                }
                let per_base = (rows as f64 / len.max(1) as f64).max(0.5);
                let delta = ((6600.0 - rows as f64) / per_base) as i64;
                len = (len as i64 + if delta == 0 { 1 } else { delta }).max(4 * self.c.file.k as i64) as usize;
            }
            return Ok(None);
        }
        let samples = samples_for(&self.c.file);
        for s in &samples {
            self.dir.write(&s.file(), &s.bytes());
        }
        // the stored-chunk file: whether snappy stores or compresses the k-mer block is borderline and
        // depends on the row (hash) order, so the first of a few fixed hash seeds that yields a stored
        // chunk is used
        let tries = if self.c.file.kind == "stored128" { 8 } else { 1 };
        for t in 0..tries {
            let r = self.run_seeded(self.build_args("orig", &samples), (self.c.file.gen_seed >> 1) + t, None)?;
            if !r.ok() {
                return Ok(None);
            }
            let d = self.dir.read("orig.skf").unwrap_or_default();
            let mut pos = 0;
            let mut stored = false;
            while pos + 4 <= d.len() {
                stored |= d[pos] == 0x01;
                pos += 4 + (d[pos + 1] as usize | (d[pos + 2] as usize) << 8 | (d[pos + 3] as usize) << 16);
            }
            if stored || tries == 1 {
                break;
            }
        }
        if self.c.file.kind == "weeded64" {
            // a file carrying hidden state (counts made with --filter-ambig-as-missing)
            // (the longest record: a generator may cut a sample into records shorter than k+8)
            let rec = samples[0].records.iter().map(|r| &r.1).max_by_key(|r| r.len()).unwrap();
            let w = wrap_fasta("w", &rec[..(self.c.file.k + 8).min(rec.len())], 0);
            self.dir.write("weed.fa", w.as_bytes());
            let r = self.run_seeded(
                vec!["weed".into(), "orig.skf".into(), "weed.fa".into(), "--min-freq".into(), "1".into(), "--filter-ambig-as-missing".into()],
                self.c.file.gen_seed >> 2,
                None,
            )?;
            if !r.ok() {
                return Ok(None);
            }
        }
        Ok(Some(samples))
    }
}

// (the subcommands that take --threads also with 2 threads: another thread count may mean another way of reading the file)
const SUBCOMMANDS: [&str; 13] = ["nk", "align", "map", "distance", "merge-first", "merge-second", "delete", "weed", "lo", "align-threads2", "map-threads2", "distance-threads2", "lo-threads2"];

fn subcommand_argv(which: &str, victim: &str, first_name: &str) -> Vec<String> {
    let v = victim.to_string();
    match which {
        "align-threads2" => vec!["align".into(), v, "--threads".into(), "2".into()],
        "map-threads2" => vec!["map".into(), "ref.fa".into(), v, "--threads".into(), "2".into()],
        "distance-threads2" => vec!["distance".into(), v, "--threads".into(), "2".into()],
        "lo-threads2" => vec!["lo".into(), v, "lo_out".into(), "--threads".into(), "2".into()],
        "nk" => vec!["nk".into(), v, "--full-info".into()],
        "align" => vec!["align".into(), v],
        "map" => vec!["map".into(), "ref.fa".into(), v],
        "distance" => vec!["distance".into(), v],
        "merge-first" => vec!["merge".into(), v, "good.skf".into(), "-o".into(), "merged_out".into()],
        "merge-second" => vec!["merge".into(), "good.skf".into(), v, "-o".into(), "merged_out".into()],
        "delete" => vec!["delete".into(), "--skf-file".into(), v, first_name.into()],
        "weed" => vec!["weed".into(), v, "ref.fa".into(), "--min-freq".into(), "0".into()],
        _ => vec!["lo".into(), v, "lo_out".into()],
    }
}

type V = Option<(String, String)>;

impl Workload for DamageWorkload {
    type Case = DamageCase;
    fn property(&self) -> &'static str {
        "C19"
    }
    fn name(&self) -> &'static str {
        "damage"
    }
    fn level(&self) -> &'static str {
        "fault_enumeration"
    }
    fn exhaustive(&self, tier: Tier) -> bool {
        // quick: complete for five of the seven files, the two large ones are sampled
        tier == Tier::Thorough
    }
    fn runs_needed(&self, tier: Tier) -> Option<u64> {
        Some(self.plan(tier).len() as u64)
    }
    fn rule(&self) -> String {
        "fault enumeration over seven valid files produced by real simulated processes (64-bit k=15, 128-bit k=41, k=37 whose k-mers fit in 64 bits, a 64-bit file rewritten in place by weed --filter-ambig-as-missing, a k=31 file of two compression frames, a k=63 one-sample file whose chunk snappy stores uncompressed, and a k=31 file whose second frame holds only the last 150..1500 bytes of the serialised array): every proper prefix and every single-bit flip (complete for the first five files at both tiers; the two large ones, 80-100 KB, are sampled at the quick tier, the last sixteenth of the small-last-frame file completely - every byte with one seeded bit, every 16th prefix - and complete at the thorough tier, which is therefore the exhaustive one; thorough also adds a k=63 file, a k=5 file and a 128-bit file of several frames, and more subcommand / crash samples) is given to MergeSkaArray::<u64>::load and ::<u128>::load, and an accepted image must give the original k, strand, names, k-mers and bases and be saved again as the same bytes as the original (so that stored state no accessor shows - counts, width, version - is compared too); a seeded sample of images goes to every subcommand as simulated processes; crash_at_byte(n) and write_error_at_byte(n) are injected into real build/merge/delete/weed writers (n = 0, every chunk boundary of the new file, seeded offsets), among them a shape-preserving in-place rewrite (weed --ambig-mask) of a two-frame file with ambiguity codes in both frames; what lies at the target afterwards must be nothing, the old file untouched, the complete new file, or a file that every loader and subcommand rejects (or that decodes to exactly the new - for a non-prefix also the old - content). evaluations = loader calls + subcommand executions on damaged images; distinct_nontrivial = distinct damaged images (file, prefix length | byte, bit) - every one is non-trivial because it differs from the valid file".into()
    }
    fn assumptions(&self) -> Vec<String> {
        vec![
            "content = k, strand mode, sample names, split k-mers and bases in stored order, plus - for an image a loader accepts - the bytes the loaded array is saved as again, compared with what the same loader makes of the undamaged file (so that stored state no accessor shows, such as the per-row counts, is covered)".into(),
            "a loader panic counts as rejection (a subcommand would end with a non-zero status)".into(),
            "crash model: the kernel short-writes at byte n of the output file (RLIMIT_FSIZE) and either kills the writer (SIGXFSZ) or fails the write with an error (disk full); metadata and directory operations are not torn".into(),
        ]
    }
    fn generate(&self, seed: u64, index: u64, tier: Tier) -> DamageCase {
        let plan = self.plan(tier);
        let (file, mode) = plan[(index as usize) % plan.len()].clone();
        DamageCase { file, mode, sim_seed: seed >> 1 }
    }

    fn execute(&self, c: &DamageCase, ctx: &mut Ctx) -> Result<Outcome, HarnessError> {
        let dir = &ctx.dir;
        let mut ex = Ex { dir, c, log: vec![format!("damage case {} {:?}", c.file.kind, c.mode)], nproc: 0 };
        let mut out = Outcome::default();
        let Some(samples) = ex.make_files()? else {
            out.log = ex.log;
            return Ok(out);
        };
        let orig = dir.read("orig.skf").unwrap_or_default();
        let path64 = dir.p("orig.skf");
        let p = path64.to_str().unwrap();
        let c64 = load_as::<u64>(p);
        let c128 = load_as::<u128>(p);
        let content: Content = match (&c64, &c128) {
            (Ok(a), Err(_)) => a.clone(),
            (Err(_), Ok(b)) => b.clone(),
            (Ok(a), Ok(b)) => {
                if (&a.0, &a.1, &a.2, &a.3) != (&b.0, &b.1, &b.2, &b.3) {
                    out.violation = Some(("load:valid-file-read-differently-by-width".into(), format!("{} decodes differently as 64-bit and as 128-bit", c.file.kind)));
                    out.log = ex.log;
                    return Ok(out);
                }
                a.clone()
            }
            (Err(e1), Err(e2)) => {
                out.violation = Some(("load:valid-file-rejected".into(), format!("{e1} / {e2}")));
                out.log = ex.log;
                return Ok(out);
            }
        };
        probe(&format!("c19_valid_{}_accepted_by_{}", c.file.kind, match (&c64, &c128) { (Ok(_), Ok(_)) => "both", (Ok(_), _) => "64", _ => "128" }));
        let nframes = frame_ends(&orig).len().saturating_sub(1);
        probe(&format!("c19_{}_data_chunks_{}", c.file.kind, nframes));
        let reg = regions(&orig);
        {
            let mut pos = 0;
            while pos + 4 <= orig.len() {
                let len = orig[pos + 1] as usize | (orig[pos + 2] as usize) << 8 | (orig[pos + 3] as usize) << 16;
                match orig[pos] {
                    0x00 => probe(&format!("c19_{}_has_compressed_chunk_of_{}k", c.file.kind, len / 1024)),
                    0x01 => probe(&format!("c19_{}_has_uncompressed_chunk_of_{}k", c.file.kind, len / 1024)),
                    _ => {}
                }
                pos += 4 + len;
            }
        }
        let img = dir.p("img.skf");
        let imgp = img.to_str().unwrap().to_string();
        // verdict of the two loaders on a damaged image: Err(msg) = accepted as different data
        let check_image = |data: &[u8], what: &str| -> Result<bool, (String, String)> {
            std::fs::write(&img, data).expect("write image");
            let mut accepted = false;
            for (w, r, own) in [(64, load_as::<u64>(&imgp), c64.as_ref().ok()), (128, load_as::<u128>(&imgp), c128.as_ref().ok())] {
                if let Ok(got) = r {
                    // the expectation is what THIS loader made of the undamaged file (the re-saved bytes
                    // of another width are not comparable); a loader that rejects the undamaged file
                    // is held to k, strand, names, k-mers and bases only
                    let same = match own {
                        Some(o) => got == *o,
                        None => (&got.0, &got.1, &got.2, &got.3) == (&content.0, &content.1, &content.2, &content.3),
                    };
                    if !same {
                        let hidden = (&got.0, &got.1, &got.2, &got.3) == (&content.0, &content.1, &content.2, &content.3);
                        return Err((
                            format!("load:{w}-bit-loader-accepts-damaged-file-as-different-data"),
                            format!("{} of {} ({} bytes): accepted with k={} rc={} names={:?} rows={} (original k={} names={:?} rows={}){}", what, c.file.kind, orig.len(), got.0, got.1, got.2, got.3.len(), content.0, content.2, content.3.len(), if hidden { "; k-mers and bases agree but the loaded array is saved as other bytes than the original's: stored state that no accessor shows (per-row counts, width, version) differs" } else { "" }),
                        ));
                    }
                    accepted = true;
                }
            }
            Ok(accepted)
        };
        let mut viol: V = None;
        match &c.mode {
            Mode::Loads { slice, of, prefix_every, all_bits, bit_seed } => {
                let lo = orig.len() * slice / of;
                let hi = orig.len() * (slice + 1) / of;
                let ends = frame_ends(&orig);
                let mut images = 0u64;
                let (mut rejected, mut same) = (0u64, 0u64);
                'outer: for n in lo..hi {
                    // proper prefix of length n (0 <= n < len)
                    if n % prefix_every == 0 || ends.contains(&n) {
                        images += 1;
                        if ends.contains(&n) {
                            probe("c19_prefix_ending_on_a_chunk_boundary");
                        }
                        match check_image(&orig[..n], &format!("prefix of length {n}")) {
                            Err(e) => {
                                viol = Some(e);
                                break 'outer;
                            }
                            Ok(true) => {
                                // a proper prefix that still decodes to the whole content cannot exist
                                same += 1;
                                probe("c19_prefix_accepted_with_original_content");
                            }
                            Ok(false) => rejected += 1,
                        }
                    }
                    let bits: Vec<u8> = if *all_bits { (0..8).collect() } else { vec![(mix(*bit_seed, n as u64) % 8) as u8] };
                    for b in bits {
                        images += 1;
                        let mut d = orig.clone();
                        d[n] ^= 1 << b;
                        match check_image(&d, &format!("flip of bit {b} of byte {n} ({})", reg[n])) {
                            Err(e) => {
                                viol = Some(e);
                                break 'outer;
                            }
                            Ok(true) => {
                                same += 1;
                                probe(&format!("c19_flip_harmless_in_{}", reg[n]));
                            }
                            Ok(false) => rejected += 1,
                        }
                        probe(&format!("c19_flips_in_{}", reg[n]));
                    }
                }
                probe_n("c19_images_rejected_by_both_loaders", rejected);
                probe_n("c19_images_accepted_with_original_content", same);
                fault("truncate");
                fault("bitflip");
                probe_n("c19_truncations", ((hi - lo) / prefix_every) as u64);
                out.evals = images * 2;
                out.distinct = images;
            }
            Mode::Procs { seed, count } => {
                let mut rng = Rng::new(*seed);
                // companions: a second valid file and a reference
                let mut others = samples.clone();
                for s in others.iter_mut() {
                    s.name = format!("o{}", s.name);
                    dir.write(&s.file(), &s.bytes());
                }
                let r = ex.run(ex.build_args("good", &others))?;
                if !r.ok() {
                    out.log = ex.log;
                    return Ok(out);
                }
                let joined: Vec<u8> = samples[0].records.iter().flat_map(|x| x.1.clone()).collect();
                dir.write("ref.fa", wrap_fasta("chr1", &joined, 60).as_bytes());
                let first_name = content.2[0].clone();
                for img_no in 0..*count {
                    // the first images of every case are the likeliest leftovers of an interrupted
                    // overwrite and damage to the very first bytes (the stream identifier)
                    let (data, what) = if img_no == 0 {
                        fault("truncate");
                        (vec![], "prefix of length 0".to_string())
                    } else if img_no == 1 {
                        let n = rng.range(1, 9);
                        fault("truncate");
                        (orig[..n].to_vec(), format!("prefix of length {n}"))
                    } else if img_no == 2 {
                        let (n, b) = (rng.below(10), rng.below(8));
                        let mut d = orig.clone();
                        d[n] ^= 1 << b;
                        fault("bitflip");
                        (d, format!("flip of bit {b} of byte {n} ({})", reg[n]))
                    } else if rng.chance(40) {
                        let n = if rng.chance(30) { *rng.pick(&frame_ends(&orig)) % orig.len() } else { rng.below(orig.len()) };
                        fault("truncate");
                        (orig[..n].to_vec(), format!("prefix of length {n}"))
                    } else {
                        let (n, b) = (rng.below(orig.len()), rng.below(8));
                        let mut d = orig.clone();
                        d[n] ^= 1 << b;
                        fault("bitflip");
                        (d, format!("flip of bit {b} of byte {n} ({})", reg[n]))
                    };
                    let accepted = match check_image(&data, &what) {
                        Err(e) => {
                            viol = Some(e);
                            break;
                        }
                        Ok(a) => a,
                    };
                    out.evals += 2;
                    out.distinct += 1;
                    if accepted {
                        continue; // same content: nothing to demand of the subcommands
                    }
                    for sc in SUBCOMMANDS {
                        dir.write("victim.skf", &data);
                        let before: BTreeMap<String, u64> = dir.listing().into_iter().filter_map(|n| dir.digest(&n).map(|d| (n, d))).collect();
                        let r = ex.run(subcommand_argv(sc, "victim.skf", &first_name))?;
                        out.evals += 1;
                        probe(&format!("c19_subcommand_{sc}_on_damaged"));
                        if r.ok() {
                            viol = Some((format!("proc:{sc}-accepts-damaged-file"), format!("ska {sc} exits 0 on {what} of {} although both loaders reject it", c.file.kind)));
                            break;
                        }
                        let after: BTreeMap<String, u64> = dir.listing().into_iter().filter_map(|n| dir.digest(&n).map(|d| (n, d))).collect();
                        if after != before {
                            // A subcommand that refuses its input may leave other things behind (an
                            // empty output, a temporary file): not C19's business. What must not
                            // appear is a readable table - a new or rewritten file that a loader
                            // accepts although the input was rejected.
                            let changed: Vec<String> = after.keys().filter(|k| before.get(*k) != after.get(*k)).cloned().collect();
                            probe("c19_rejecting_subcommand_left_other_files_changed");
                            let mut bad = None;
                            for f in &changed {
                                let pth = dir.p(f);
                                let pp = pth.to_str().unwrap();
                                if load_as::<u64>(pp).is_ok() || load_as::<u128>(pp).is_ok() {
                                    bad = Some(f.clone());
                                }
                            }
                            for f in &changed {
                                if f != "victim.skf" {
                                    dir.remove(f);
                                }
                            }
                            if let Some(f) = bad {
                                viol = Some((format!("proc:{sc}-writes-a-table-after-rejecting"), format!("ska {sc} on {what} of {} failed ({}) but left {f}, which a loader accepts", c.file.kind, r.status_str())));
                                break;
                            }
                        }
                    }
                    if viol.is_some() {
                        break;
                    }
                }
            }
            Mode::Crash { op, seed, count } => {
                let mut rng = Rng::new(*seed);
                let mut others = samples.clone();
                for s in others.iter_mut() {
                    s.name = format!("o{}", s.name);
                    dir.write(&s.file(), &s.bytes());
                }
                let r = ex.run(ex.build_args("good", &others))?;
                if !r.ok() {
                    out.log = ex.log;
                    return Ok(out);
                }
                let joined: Vec<u8> = samples[0].records.iter().flat_map(|x| x.1.clone()).collect();
                dir.write("ref.fa", wrap_fasta("chr1", &joined, 60).as_bytes());
                let first_name = content.2[0].clone();
                let good = dir.read("good.skf").unwrap_or_default();
                // the writer under test; `target` is the file it (over)writes
                let (argv, target): (Vec<String>, &str) = match op.as_str() {
                    "delete" => (vec!["delete".into(), "--skf-file".into(), "work.skf".into(), first_name.clone()], "work.skf"),
                    "weed" => (vec!["weed".into(), "work.skf".into(), "ref.fa".into(), "--min-freq".into(), "0".into(), "--reverse".into()], "work.skf"),
                    "mask" => (vec!["weed".into(), "work.skf".into(), "--min-freq".into(), "0".into(), "--ambig-mask".into()], "work.skf"),
                    "merge" => (vec!["merge".into(), "work.skf".into(), "good.skf".into(), "-o".into(), "target".into()], "target.skf"),
                    _ => (ex.build_args("target", &samples), "target.skf"),
                };
                let wseed = mix(*seed, 7) >> 1;
                dir.write("work.skf", &orig);
                let r0 = ex.run_seeded(argv.clone(), wseed, None)?;
                if !r0.ok() {
                    // e.g. delete of the only sample: nothing to crash
                    out.log = ex.log;
                    return Ok(out);
                }
                let full = dir.read(target).unwrap_or_default();
                // what the complete new file and the file that was there before decode to
                let wpath = dir.p("complete_copy.skf");
                std::fs::write(&wpath, &full).expect("write copy");
                let new64 = load_as::<u64>(wpath.to_str().unwrap()).ok();
                let new128 = load_as::<u128>(wpath.to_str().unwrap()).ok();
                let new_content: Option<Content> = new64.clone().or_else(|| new128.clone());
                let _ = std::fs::remove_file(&wpath);
                let old_bytes: Option<Vec<u8>> = if target == "work.skf" { Some(orig.clone()) } else { None };
                if op == "mask" && new_content.as_ref().map(|c| c.3 != content.3) == Some(true) {
                    probe("c19_mask_rewrites_bases_in_place");
                }
                // crash points: right after the file was re-created, at every chunk boundary of the new
                // file (the places where a mixture of two valid streams would still be a valid stream),
                // and `count` seeded offsets
                let mut points: Vec<u64> = vec![0];
                points.extend(frame_ends(&full).into_iter().filter(|e| *e < full.len()).map(|e| e as u64));
                for _ in 1..*count {
                    points.push(rng.below(full.len().max(1)) as u64);
                }
                for (crash_no, n) in points.into_iter().enumerate() {
                    let _ = crash_no;
                    dir.write("work.skf", &orig);
                    dir.write("good.skf", &good);
                    if target != "work.skf" {
                        dir.remove(target);
                    }
                    // half of the injections kill the writer (power loss / kill), half make the write
                    // fail (disk full) so that ska's own error path runs
                    let as_error = rng.chance(50);
                    let r = ex.run_faulty(argv.clone(), wseed, Some(n), as_error)?;
                    out.evals += 1;
                    out.distinct += 1;
                    if as_error {
                        probe(&format!("c19_write_error_in_{op}"));
                    }
                    if as_error && r.ok() {
                        // the failed write went unnoticed (the error surfaces only in a flush-on-drop):
                        // not what C19 is about - what matters is what is left on the disk
                        probe("c19_write_error_unnoticed_by_writer_exit0");
                    }
                    if !as_error && r.signal != Some(libc::SIGXFSZ) && !r.refused() {
                        // the writer never wrote past byte n (no crash happened): an observation about
                        // the writer, not C19's business; what it left is judged like any other state
                        probe("c19_crash_point_not_reached_by_the_writer");
                    }
                    probe(&format!("c19_crash_in_{op}"));
                    if target == "work.skf" {
                        probe("c19_crash_during_in_place_overwrite");
                    }
                    // What may lie at the target now: nothing; the file that was there before,
                    // untouched; the complete new file; or a damaged file. Only the last is C19's
                    // business: a proper prefix of the new file must be rejected or decode to the new
                    // file's content; anything else (e.g. new bytes followed by old ones) must be
                    // rejected or decode to the new or the old content - never to a third thing.
                    let Some(left) = dir.read(target) else {
                        probe("c19_crash_left_no_file_at_the_target");
                        continue;
                    };
                    if old_bytes.as_ref() == Some(&left) {
                        probe("c19_crash_left_the_old_file_untouched");
                        continue;
                    }
                    if left == full {
                        probe("c19_crash_after_the_file_was_complete");
                        continue;
                    }
                    let is_prefix = left.len() < full.len() && full[..left.len()] == left[..];
                    probe(if is_prefix { "c19_crash_left_a_proper_prefix" } else { "c19_crash_left_other_bytes_than_a_prefix" });
                    // The leftover is judged WHERE IT LIES, with everything else the interrupted writer
                    // left in the directory (temporary or backup files included): that is what the next
                    // command of a user meets. The directory state right after the crash is restored
                    // before every reader.
                    let post: BTreeMap<String, Vec<u8>> = dir.listing().into_iter().filter_map(|n| dir.read(&n).map(|d| (n, d))).collect();
                    let restore = |dir: &RunDir| {
                        for n in dir.listing() {
                            if !post.contains_key(&n) {
                                dir.remove(&n);
                            }
                        }
                        for (n, d) in &post {
                            if dir.read(n).as_deref() != Some(d.as_slice()) {
                                dir.write(n, d);
                            }
                        }
                    };
                    let tpath = dir.p(target);
                    let tp = tpath.to_str().unwrap();
                    let l64 = load_as::<u64>(tp);
                    let l128 = load_as::<u128>(tp);
                    let mut harmless = false;
                    for (got, new_w, old_w) in [(l64, &new64, c64.as_ref().ok()), (l128, &new128, c128.as_ref().ok())].into_iter().filter_map(|(g, n, o)| g.ok().map(|g| (g, n, o))) {
                        // compared with what the SAME loader makes of the complete new / the old file
                        let as_new = new_w.as_ref() == Some(&got);
                        let as_old = !is_prefix && old_bytes.is_some() && old_w == Some(&got);
                        if as_new || as_old {
                            harmless = true;
                            probe(if as_new { "c19_crash_leftover_reads_as_the_new_file" } else { "c19_crash_leftover_reads_as_the_old_file" });
                        } else {
                            viol = Some((
                                format!("crash:{op}-leftover-accepted"),
                                format!(
                                    "crash_at_byte({n}) of {}: the {} bytes left behind as {target} ({}) are accepted by a loader as k={} names={:?} rows={}, which is {} (directory after the crash: {:?})",
                                    full.len(),
                                    left.len(),
                                    if is_prefix { "a proper prefix of the new file" } else { "not a prefix of the new file" },
                                    got.0,
                                    got.2,
                                    got.3.len(),
                                    if old_bytes.is_some() && (&got.0, &got.1, &got.2, &got.3) == (&content.0, &content.1, &content.2, &content.3) { "the content of the file that was there before" } else { "neither the new nor the old content" },
                                    post.keys().collect::<Vec<_>>()
                                ),
                            ));
                        }
                    }
                    if viol.is_some() {
                        break;
                    }
                    if harmless {
                        restore(dir);
                        continue;
                    }
                    for sc in SUBCOMMANDS {
                        restore(dir);
                        let r = ex.run(subcommand_argv(sc, target, &first_name))?;
                        out.evals += 1;
                        if r.ok() {
                            viol = Some((format!("crash:{sc}-accepts-leftover-of-{op}"), format!("after crash_at_byte({n}) in ska {op}, ska {sc} exits 0 on the {} bytes left behind as {target} (directory after the crash: {:?})", left.len(), post.keys().collect::<Vec<_>>())));
                            break;
                        }
                    }
                    restore(dir);
                    if viol.is_some() {
                        break;
                    }
                }
            }
        }
        let _ = std::fs::remove_file(&img);
        out.violation = viol;
        out.nontrivial = out.evals > 0;
        out.log = ex.log;
        Ok(out)
    }

    fn shrink(&self, c: &DamageCase) -> Vec<DamageCase> {
        // cases are already minimal descriptions; narrow the slice or the sample count
        let mut v = vec![];
        match &c.mode {
            Mode::Loads { slice, of, prefix_every, all_bits, bit_seed } if *of < 1 << 20 => {
                for h in 0..2 {
                    let mut d = c.clone();
                    d.mode = Mode::Loads { slice: slice * 2 + h, of: of * 2, prefix_every: *prefix_every, all_bits: *all_bits, bit_seed: *bit_seed };
                    v.push(d);
                }
            }
            Mode::Procs { seed, count } if *count > 1 => {
                let mut d = c.clone();
                d.mode = Mode::Procs { seed: *seed, count: count - 1 };
                v.push(d);
            }
            Mode::Crash { op, seed, count } if *count > 1 => {
                let mut d = c.clone();
                d.mode = Mode::Crash { op: op.clone(), seed: *seed, count: count - 1 };
                v.push(d);
            }
            _ => {}
        }
        v
    }
    fn sample_view(&self, c: &DamageCase) -> Value {
        json!({"file": c.file, "mode": c.mode})
    }
}

#[allow(dead_code)]
fn _t(_: Proc) {}
