//! Self-tests of the machinery itself (exit 0 = passed, 2 = harness error; never a violation).

use crate::procsim::{run_proc, Proc, RunDir};
use crate::simprog::conf_programs::PROGRAMS;
use crate::util::Rng;

/// Stub conformance: every program of conformance/programs.rs must print the same observables
/// on the real rayon-core (binary built from /verif/conformance) and on the simulated core, for
/// `n` (seed, cores, policy, hook subset) points each; nested joins additionally for 50*n seeds
/// (no deadlock, no lost wake-up).
pub fn conformance(n: usize) -> i32 {
    let real = crate::framework::verif_root().join("target-conf/release/conf-real");
    if !real.exists() {
        eprintln!("HARNESS-ERROR {real:?} not built (run ./check selftest conformance)");
        return 2;
    }
    let dir = RunDir::new();
    let mut rng = Rng::new(crate::framework::verif_seed());
    let mut bad = 0;
    let mut sim_runs = 0u64;
    for prog in PROGRAMS {
        let mut expect: Option<String> = None;
        for _ in 0..3 {
            let o = std::process::Command::new(&real).arg(prog).output().expect("run conf-real");
            let s = String::from_utf8_lossy(&o.stdout).trim().to_string();
            match &expect {
                None => expect = Some(s),
                Some(e) if *e != s => {
                    println!("conformance {prog}: REAL rayon is not stable on this program: {e:?} vs {s:?}");
                    bad += 1;
                }
                _ => {}
            }
        }
        let expect = expect.unwrap_or_default();
        let reps = if prog == "nested_join" { 50 * n } else { n };
        let mut steals = 0;
        for _ in 0..reps {
            let p = Proc::varied(vec!["@conf".into(), prog.to_string()], &mut rng);
            let mut log = vec![];
            let r = match run_proc(&dir, &p, &mut log) {
                Ok(r) => r,
                Err(e) => {
                    eprintln!("HARNESS-ERROR {}", e.0);
                    return 2;
                }
            };
            sim_runs += 1;
            steals += r.stats.as_ref().map(|s| s.steals).unwrap_or(0);
            let s = String::from_utf8_lossy(&r.stdout).trim().to_string();
            if !r.ok() || s != expect {
                println!("conformance {prog}: MISMATCH under {p:?}: sim {} {s:?} / real {expect:?} {}", r.status_str(), r.stderr_tail());
                bad += 1;
                break;
            }
        }
        println!("conformance {prog}: {reps} simulated executions agree with real rayon-core ({expect}); steals observed {steals}");
    }
    crate::procsim::cleanup_scratch();
    println!("conformance: {} programs, {sim_runs} simulated executions, {bad} mismatches", PROGRAMS.len());
    if bad > 0 {
        2
    } else {
        0
    }
}
