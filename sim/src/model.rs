//! The reference model: a plain sample-by-k-mer table and the documented effect of every
//! operation on it, written from the documentation and the property statements (not from the
//! code), plus the inspector that reads an .skf from the simulated disk into such a table.

use std::collections::{BTreeMap, BTreeSet};

use serde::{Deserialize, Serialize};
use ska::merge_ska_array::MergeSkaArray;

#[derive(Clone, Debug, PartialEq, Eq, Serialize, Deserialize)]
pub struct Table {
    pub k: usize,
    pub rc: bool,
    pub names: Vec<String>,
    /// encoded split k-mer -> one middle base per sample ('-' = absent)
    pub rows: BTreeMap<u128, Vec<u8>>,
}

#[derive(Clone, Copy, Debug, PartialEq, Eq, Serialize, Deserialize)]
pub enum SiteFilter {
    NoFilter,
    NoConst,
    NoAmbig,
    NoAmbigOrConst,
}
impl SiteFilter {
    pub fn cli(&self) -> &'static str {
        match self {
            SiteFilter::NoFilter => "no-filter",
            SiteFilter::NoConst => "no-const",
            SiteFilter::NoAmbig => "no-ambig",
            SiteFilter::NoAmbigOrConst => "no-ambig-or-const",
        }
    }
    pub const ALL: [SiteFilter; 4] = [
        SiteFilter::NoFilter,
        SiteFilter::NoConst,
        SiteFilter::NoAmbig,
        SiteFilter::NoAmbigOrConst,
    ];
}

pub fn is_acgt(b: u8) -> bool {
    matches!(b, b'A' | b'C' | b'G' | b'T' | b'U')
}
/// an ambiguity code: anything that is neither A/C/G/T/U nor a gap
pub fn is_ambig(b: u8) -> bool {
    !is_acgt(b) && b != b'-'
}

#[derive(Clone, Copy, Debug, PartialEq, Eq, Serialize, Deserialize)]
pub struct FilterOpts {
    /// a row must be present in at least this many samples
    pub min_count: usize,
    pub ambig_missing: bool,
    pub filter: SiteFilter,
    pub ambig_mask: bool,
    pub no_gap_only: bool,
}

/// C06's row predicate
pub fn row_passes(row: &[u8], o: &FilterOpts) -> bool {
    let count = row
        .iter()
        .filter(|b| **b != b'-' && (!o.ambig_missing || !is_ambig(**b)))
        .count();
    if count < o.min_count.max(1) {
        return false;
    }
    match o.filter {
        SiteFilter::NoFilter => true,
        SiteFilter::NoConst => {
            let s: BTreeSet<u8> = row
                .iter()
                .copied()
                .filter(|b| !(o.no_gap_only && *b == b'-'))
                .collect();
            s.len() >= 2
        }
        SiteFilter::NoAmbig => !row.iter().any(|b| is_ambig(*b)),
        SiteFilter::NoAmbigOrConst => {
            let s: BTreeSet<u8> = row
                .iter()
                .copied()
                .filter(|b| is_acgt(*b) || (*b == b'-' && !o.no_gap_only))
                .collect();
            s.len() >= 2
        }
    }
}
pub fn mask_row(row: &[u8], mask: bool) -> Vec<u8> {
    row.iter()
        .map(|b| if mask && is_ambig(*b) { b'N' } else { *b })
        .collect()
}

impl Table {
    pub fn n(&self) -> usize {
        self.names.len()
    }
    /// no row is all '-', every row has one entry per sample
    pub fn well_formed(&self) -> bool {
        self.rows
            .values()
            .all(|r| r.len() == self.names.len() && r.iter().any(|b| *b != b'-'))
    }
    pub fn digest(&self) -> u64 {
        let mut h = crate::util::fnv_str(&format!("{}{}{:?}", self.k, self.rc, self.names));
        for (k, v) in &self.rows {
            h = crate::util::mix(h, *k as u64 ^ (*k >> 64) as u64);
            h = crate::util::mix(h, crate::util::fnv(v));
        }
        h
    }
    pub fn has_ambig(&self) -> bool {
        self.rows.values().any(|r| r.iter().any(|b| is_ambig(*b)))
    }

    /// `ska merge a b ..`: samples of all inputs in argument order, union of rows, '-' padding
    pub fn merge(tables: &[&Table]) -> Result<Table, String> {
        let first = tables[0];
        let mut out = Table {
            k: first.k,
            rc: first.rc,
            names: vec![],
            rows: BTreeMap::new(),
        };
        for t in tables {
            if t.k != out.k {
                return Err("k mismatch".into());
            }
            if t.rc != out.rc {
                return Err("strand mismatch".into());
            }
            let before = out.names.len();
            out.names.extend(t.names.iter().cloned());
            for r in out.rows.values_mut() {
                r.resize(before + t.n(), b'-');
            }
            for (kmer, row) in &t.rows {
                let e = out
                    .rows
                    .entry(*kmer)
                    .or_insert_with(|| vec![b'-'; before + t.n()]);
                e[before..].copy_from_slice(row);
            }
        }
        Ok(out)
    }

    /// `ska delete`: drop the named columns, then rows that became empty
    pub fn delete(&self, del: &[String]) -> Result<Table, String> {
        let set: BTreeSet<&String> = del.iter().collect();
        if set.is_empty() {
            return Err("nothing to delete".into());
        }
        for d in &set {
            if !self.names.contains(d) {
                return Err(format!("unknown sample {d}"));
            }
        }
        let keep: Vec<usize> = (0..self.n()).filter(|i| !set.contains(&self.names[*i])).collect();
        if keep.is_empty() {
            return Err("all samples".into());
        }
        let mut out = Table {
            k: self.k,
            rc: self.rc,
            names: keep.iter().map(|i| self.names[*i].clone()).collect(),
            rows: BTreeMap::new(),
        };
        for (kmer, row) in &self.rows {
            let r: Vec<u8> = keep.iter().map(|i| row[*i]).collect();
            if r.iter().any(|b| *b != b'-') {
                out.rows.insert(*kmer, r);
            }
        }
        Ok(out)
    }

    /// `ska weed`: remove exactly the k-mers in `set` (or keep exactly those with `reverse`)
    pub fn weed(&self, set: &BTreeSet<u128>, reverse: bool) -> Table {
        let mut out = self.clone();
        out.rows.retain(|kmer, _| set.contains(kmer) == reverse);
        out
    }

    /// the filters of `ska weed` applied to the stored table
    pub fn filter(&self, o: &FilterOpts) -> Table {
        let mut out = self.clone();
        out.rows.retain(|_, row| row_passes(row, o));
        if o.ambig_mask {
            for r in out.rows.values_mut() {
                *r = mask_row(r, true);
            }
        }
        out
    }

    /// `ska align`: the multiset of emitted columns
    pub fn align_columns(&self, o: &FilterOpts) -> Vec<Vec<u8>> {
        let mut v: Vec<Vec<u8>> = self
            .rows
            .values()
            .filter(|r| row_passes(r, o))
            .map(|r| mask_row(r, o.ambig_mask))
            .collect();
        v.sort();
        v
    }

    /// `ska distance` on a table without ambiguity codes (C14's definition).
    /// Returns (i, j, snps, mismatch proportion) for i<j in sample order.
    pub fn distance(&self, min_count: usize) -> Vec<(usize, usize, f64, f64)> {
        let rows: Vec<&Vec<u8>> = self
            .rows
            .values()
            .filter(|r| r.iter().filter(|b| **b != b'-').count() >= min_count)
            .collect();
        let mut out = vec![];
        for i in 0..self.n() {
            for j in i + 1..self.n() {
                let (mut snps, mut both, mut one) = (0u64, 0u64, 0u64);
                for r in &rows {
                    let (a, b) = (r[i], r[j]);
                    match (a != b'-', b != b'-') {
                        (true, true) => {
                            both += 1;
                            if a != b {
                                snps += 1;
                            }
                        }
                        (true, false) | (false, true) => one += 1,
                        _ => {}
                    }
                }
                let mm = if both + one == 0 { 0.0 } else { one as f64 / (both + one) as f64 };
                out.push((i, j, snps as f64, mm));
            }
        }
        out
    }

    pub fn summary(&self) -> String {
        format!(
            "k={} rc={} samples={:?} rows={}",
            self.k,
            self.rc,
            self.names,
            self.rows.len()
        )
    }

    /// first difference between two tables, for violation messages
    pub fn diff(&self, other: &Table) -> String {
        if self.k != other.k || self.rc != other.rc {
            return format!("k/rc differ: {}/{} vs {}/{}", self.k, self.rc, other.k, other.rc);
        }
        if self.names != other.names {
            return format!("names differ: {:?} vs {:?}", self.names, other.names);
        }
        let ka: BTreeSet<_> = self.rows.keys().collect();
        let kb: BTreeSet<_> = other.rows.keys().collect();
        if let Some(x) = ka.difference(&kb).next() {
            return format!(
                "k-mer {:#x} only in first ({} vs {} rows), bases {:?}",
                x,
                ka.len(),
                kb.len(),
                String::from_utf8_lossy(&self.rows[x])
            );
        }
        if let Some(x) = kb.difference(&ka).next() {
            return format!(
                "k-mer {:#x} only in second ({} vs {} rows), bases {:?}",
                x,
                ka.len(),
                kb.len(),
                String::from_utf8_lossy(&other.rows[x])
            );
        }
        for (k, r) in &self.rows {
            if &other.rows[k] != r {
                return format!(
                    "k-mer {:#x}: bases {:?} vs {:?}",
                    k,
                    String::from_utf8_lossy(r),
                    String::from_utf8_lossy(&other.rows[k])
                );
            }
        }
        "equal".into()
    }
}

/// What the inspector found in a file
#[derive(Clone, Debug)]
pub struct Inspected {
    pub table: Table,
    /// width of the loader that accepted the file (128 is tried first)
    pub loader_bits: u32,
    /// k_bits recorded in the file
    pub k_bits: u32,
    pub duplicate_kmers: usize,
    pub all_gap_rows: usize,
}

fn k_bits_of(display: &str) -> u32 {
    display
        .lines()
        .find_map(|l| l.strip_prefix("k_bits="))
        .and_then(|v| v.trim().parse().ok())
        .unwrap_or(0)
}

/// Read any .skf with the 128-bit loader (on the pinned tree it accepts files of either width),
/// and only if that fails with the 64-bit one. Never takes the "64-bit first" branch C09 is about.
pub fn inspect(path: &std::path::Path) -> Result<Inspected, String> {
    let p = path.to_str().unwrap();
    let (k, rc, names, rows, loader_bits, k_bits): (usize, bool, Vec<String>, Vec<(u128, Vec<u8>)>, u32, u32) =
        match MergeSkaArray::<u128>::load(p) {
            Ok(a) => (
                a.kmer_len(),
                a.rc(),
                a.names().clone(),
                a.iter().collect(),
                128,
                k_bits_of(&format!("{a}")),
            ),
            Err(e128) => match MergeSkaArray::<u64>::load(p) {
                Ok(a) => (
                    a.kmer_len(),
                    a.rc(),
                    a.names().clone(),
                    a.iter().map(|(k, v)| (k as u128, v)).collect(),
                    64,
                    k_bits_of(&format!("{a}")),
                ),
                Err(e64) => return Err(format!("unreadable: u128: {e128}; u64: {e64}")),
            },
        };
    let mut t = Table {
        k,
        rc,
        names,
        rows: BTreeMap::new(),
    };
    let mut dup = 0;
    let mut gaps = 0;
    for (kmer, row) in rows {
        if row.iter().all(|b| *b == b'-') {
            gaps += 1;
        }
        if t.rows.insert(kmer, row).is_some() {
            dup += 1;
        }
    }
    Ok(Inspected {
        table: t,
        loader_bits,
        k_bits,
        duplicate_kmers: dup,
        all_gap_rows: gaps,
    })
}

/// parse a FASTA alignment (as written by `ska align` / `ska map -f aln` / `ska lo`) into
/// (names, sequences)
pub fn parse_fasta(data: &[u8]) -> Result<(Vec<String>, Vec<Vec<u8>>), String> {
    let mut names = vec![];
    let mut seqs: Vec<Vec<u8>> = vec![];
    for line in data.split(|b| *b == b'\n') {
        if line.is_empty() {
            continue;
        }
        if line[0] == b'>' {
            names.push(String::from_utf8_lossy(&line[1..]).to_string());
            seqs.push(vec![]);
        } else {
            match seqs.last_mut() {
                Some(s) => s.extend_from_slice(line),
                None => return Err("sequence before header".into()),
            }
        }
    }
    Ok((names, seqs))
}

/// columns of an alignment as a sorted multiset
pub fn columns(seqs: &[Vec<u8>]) -> Result<Vec<Vec<u8>>, String> {
    if seqs.is_empty() {
        return Ok(vec![]);
    }
    let l = seqs[0].len();
    if seqs.iter().any(|s| s.len() != l) {
        return Err(format!(
            "sequences of unequal length: {:?}",
            seqs.iter().map(|s| s.len()).collect::<Vec<_>>()
        ));
    }
    let mut v: Vec<Vec<u8>> = (0..l).map(|i| seqs.iter().map(|s| s[i]).collect()).collect();
    v.sort();
    Ok(v)
}
