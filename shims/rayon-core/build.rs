fn main() {}
