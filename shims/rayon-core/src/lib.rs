//! rayon-core (sim): a work-stealing core with rayon-core's public surface whose every
//! scheduling decision is taken by the shuttle scheduler that the harness owns.
//!
//! Discipline reproduced from rayon-core 1.13 (registry.rs / join/mod.rs):
//!  * a pool is `n` worker tasks, each owning a deque; `join_context(a, b)` on a worker pushes
//!    `b` on its own deque, runs `a`, then pops its deque: if `b` is still there it runs it inline
//!    (`migrated = false`); otherwise it executes other available jobs nested on its own stack
//!    (local pop, then steal, then injector) until `b`'s latch is set;
//!  * thieves take the OLDEST job of a victim (start of the victim scan drawn from the simulator
//!    PRNG) and run it with `migrated = true`;
//!  * a caller that is not a worker of the pool injects the job and blocks (`in_worker_cold`),
//!    and the injected closure sees `injected = true`;
//!  * the global pool can be configured once; any implicit use creates it;
//!  * a panic inside a job is caught, stored, and resumed in the joiner.
//!
//! All pool state sits behind ONE `shuttle::sync::Mutex`, so every deque operation, steal attempt
//! and latch wait is a scheduler switch point.  Latches are set and signalled under that lock
//! (no lost wake-ups).
//!
//! Not implemented because nothing in ska, rayon's iterator plumbing, ndarray, hashbrown or
//! indicatif reaches it: `scope*`/`spawn*` run their body inline, `broadcast*` panic.

use std::collections::{HashMap, VecDeque};
use std::error::Error;
use std::fmt;
use std::marker::PhantomData;
use std::panic::{catch_unwind, resume_unwind, AssertUnwindSafe};
use std::sync::atomic::{AtomicBool, AtomicU64, AtomicUsize, Ordering};
use std::sync::Arc;

use shuttle::sync::{Condvar, Mutex};

// ---------------------------------------------------------------- simulator-facing side
pub mod sim {
    use super::*;
    /// false (the harness's own parent / worker processes, which are not inside a shuttle
    /// execution): every entry point degrades to plain sequential execution on the calling thread,
    /// so that ska code called in-process (the inspector's `load`) may use rayon
    pub static ACTIVE: AtomicBool = AtomicBool::new(false);
    pub fn activate() {
        ACTIVE.store(true, Ordering::SeqCst);
    }
    pub(crate) fn active() -> bool {
        ACTIVE.load(Ordering::Relaxed)
    }
    /// size of an unconfigured global pool = the simulated machine's core count
    pub static CORES: AtomicUsize = AtomicUsize::new(4);
    pub static JOINS: AtomicU64 = AtomicU64::new(0);
    pub static STEALS: AtomicU64 = AtomicU64::new(0);
    pub static INLINE_B: AtomicU64 = AtomicU64::new(0);
    pub static INJECTED: AtomicU64 = AtomicU64::new(0);
    pub static NESTED_WAIT_JOBS: AtomicU64 = AtomicU64::new(0);
    pub static POOLS_BUILT: AtomicU64 = AtomicU64::new(0);
    pub static GLOBAL_IMPLICIT: AtomicBool = AtomicBool::new(false);
    pub static GLOBAL_CONFIGURED: AtomicBool = AtomicBool::new(false);
    pub static BUILD_GLOBAL_REFUSED: AtomicU64 = AtomicU64::new(0);

    /// End the global pool (call once `main` has returned so that every task finishes), and the
    /// pools whose handle was dropped while a panic was unwinding (see `Drop for ThreadPool`).
    pub fn shutdown() {
        let zombies: Vec<_> = std::mem::take(&mut *ZOMBIES.lock().unwrap());
        for p in zombies {
            p.terminate();
        }
        let g = GLOBAL.lock().unwrap().take();
        if let Some(p) = g {
            p.terminate();
        }
    }
    pub fn global_initialised() -> bool {
        GLOBAL.lock().unwrap().is_some()
    }
    /// A plain switch point.
    pub fn sched_point() {
        shuttle::thread::yield_now();
    }
    /// Switch point used by the patched copy of rayon (par_bridge): only inside a simulation.
    pub fn point() {
        if active() {
            shuttle::thread::yield_now();
        }
    }
}

// ---------------------------------------------------------------- jobs
#[derive(Clone, Copy)]
struct JobRef {
    ptr: *const (),
    exec: unsafe fn(*const (), bool),
    id: u64,
}
unsafe impl Send for JobRef {}
static JOB_ID: AtomicU64 = AtomicU64::new(1);

struct StackJob<F, R> {
    f: std::cell::UnsafeCell<Option<F>>,
    r: std::cell::UnsafeCell<Option<std::thread::Result<R>>>,
    done: AtomicBool,
    id: u64,
}
impl<F: FnOnce(bool) -> R, R> StackJob<F, R> {
    fn new(f: F) -> Self {
        Self {
            f: Some(f).into(),
            r: None.into(),
            done: AtomicBool::new(false),
            id: JOB_ID.fetch_add(1, Ordering::Relaxed),
        }
    }
    fn as_job_ref(&self) -> JobRef {
        JobRef {
            ptr: self as *const Self as *const (),
            exec: Self::exec,
            id: self.id,
        }
    }
    /// runs the closure; the caller is responsible for publishing `done` under the pool lock
    unsafe fn exec(p: *const (), migrated: bool) {
        let this = &*(p as *const Self);
        let f = (*this.f.get()).take().expect("job run twice");
        let r = catch_unwind(AssertUnwindSafe(|| f(migrated)));
        *this.r.get() = Some(r);
        this.done.store(true, Ordering::SeqCst);
    }
    fn done(&self) -> bool {
        self.done.load(Ordering::SeqCst)
    }
    fn take(self) -> std::thread::Result<R> {
        self.r.into_inner().expect("job not run")
    }
}

// ---------------------------------------------------------------- pool
static ZOMBIES: std::sync::Mutex<Vec<Arc<Pool>>> = std::sync::Mutex::new(Vec::new());
struct PoolState {
    deques: Vec<VecDeque<JobRef>>,
    injected: VecDeque<JobRef>,
    terminate: bool,
}
struct Pool {
    n: usize,
    st: Mutex<PoolState>,
    cv: Condvar,
    handles: std::sync::Mutex<Vec<shuttle::thread::JoinHandle<()>>>,
}
static GLOBAL: std::sync::Mutex<Option<Arc<Pool>>> = std::sync::Mutex::new(None);
type CtxMap = HashMap<shuttle::thread::ThreadId, (Arc<Pool>, usize)>;
static CTX: std::sync::Mutex<Option<CtxMap>> = std::sync::Mutex::new(None);

fn ctx() -> Option<(Arc<Pool>, usize)> {
    let id = shuttle::thread::current().id();
    CTX.lock()
        .unwrap()
        .get_or_insert_with(HashMap::new)
        .get(&id)
        .cloned()
}
fn set_ctx(p: Arc<Pool>, idx: usize) {
    let id = shuttle::thread::current().id();
    CTX.lock()
        .unwrap()
        .get_or_insert_with(HashMap::new)
        .insert(id, (p, idx));
}
fn clear_ctx() {
    let id = shuttle::thread::current().id();
    if let Some(m) = CTX.lock().unwrap().as_mut() {
        m.remove(&id);
    }
}

fn draw(n: usize) -> usize {
    use shuttle::rand::Rng;
    (shuttle::rand::thread_rng().gen::<u64>() % n as u64) as usize
}

impl Pool {
    /// a pool without workers for the non-simulated (inline) mode
    fn inline(n: usize) -> Arc<Pool> {
        Arc::new(Pool {
            n,
            st: Mutex::new(PoolState { deques: vec![], injected: VecDeque::new(), terminate: true }),
            cv: Condvar::new(),
            handles: std::sync::Mutex::new(Vec::new()),
        })
    }
    fn new(n: usize) -> Arc<Pool> {
        let n = if n == 0 {
            sim::CORES.load(Ordering::Relaxed).max(1)
        } else {
            n
        };
        sim::POOLS_BUILT.fetch_add(1, Ordering::Relaxed);
        let p = Arc::new(Pool {
            n,
            st: Mutex::new(PoolState {
                deques: (0..n).map(|_| VecDeque::new()).collect(),
                injected: VecDeque::new(),
                terminate: false,
            }),
            cv: Condvar::new(),
            handles: std::sync::Mutex::new(Vec::new()),
        });
        for i in 0..n {
            let pc = p.clone();
            let h = shuttle::thread::spawn(move || worker_main(pc, i));
            p.handles.lock().unwrap().push(h);
        }
        p
    }
    fn terminate(&self) {
        if !sim::active() {
            return;
        }
        {
            let mut st = self.st.lock().unwrap();
            st.terminate = true;
            self.cv.notify_all();
        }
        let hs: Vec<_> = std::mem::take(&mut *self.handles.lock().unwrap());
        for h in hs {
            let _ = h.join();
        }
    }
    /// rayon's `find_work`: local LIFO pop, then steal (oldest job of a victim), then injector
    fn find_work(&self, st: &mut PoolState, idx: usize) -> Option<(JobRef, bool)> {
        if let Some(j) = st.deques[idx].pop_back() {
            return Some((j, false));
        }
        let n = self.n;
        if n > 1 {
            let start = draw(n);
            for k in 0..n {
                let v = (start + k) % n;
                if v == idx {
                    continue;
                }
                if let Some(j) = st.deques[v].pop_front() {
                    sim::STEALS.fetch_add(1, Ordering::Relaxed);
                    return Some((j, true));
                }
            }
        }
        if let Some(j) = st.injected.pop_front() {
            return Some((j, true));
        }
        None
    }
    /// run a job taken from a queue and publish its latch under the pool lock
    fn execute(&self, j: JobRef, stolen: bool) {
        // a job taken from a queue need not start at once
        shuttle::thread::yield_now();
        unsafe { (j.exec)(j.ptr, stolen) };
        let _g = self.st.lock().unwrap();
        self.cv.notify_all();
    }
}

fn worker_main(pool: Arc<Pool>, idx: usize) {
    set_ctx(pool.clone(), idx);
    loop {
        let job = {
            let mut st = pool.st.lock().unwrap();
            loop {
                if let Some(j) = pool.find_work(&mut st, idx) {
                    break Some(j);
                }
                if st.terminate {
                    break None;
                }
                st = pool.cv.wait(st).unwrap();
            }
        };
        match job {
            Some((j, stolen)) => pool.execute(j, stolen),
            None => break,
        }
    }
    clear_ctx();
}

fn global() -> Arc<Pool> {
    let mut g = GLOBAL.lock().unwrap();
    if g.is_none() {
        sim::GLOBAL_IMPLICIT.store(true, Ordering::Relaxed);
        *g = Some(Pool::new(0));
    }
    g.as_ref().unwrap().clone()
}

/// Run `op` on a worker of `pool`. On a worker of that pool: inline, `injected = false`.
/// Otherwise (rayon's in_worker_cold): inject and block until done, `injected = true`.
fn in_pool<OP, R>(pool: &Arc<Pool>, op: OP) -> R
where
    OP: FnOnce(bool) -> R + Send,
    R: Send,
{
    if let Some((p, _)) = ctx() {
        if Arc::ptr_eq(&p, pool) {
            return op(false);
        }
    }
    sim::INJECTED.fetch_add(1, Ordering::Relaxed);
    let job = StackJob::new(|_stolen: bool| op(true));
    {
        let mut st = pool.st.lock().unwrap();
        st.injected.push_back(job.as_job_ref());
        pool.cv.notify_all();
    }
    {
        let mut st = pool.st.lock().unwrap();
        while !job.done() {
            st = pool.cv.wait(st).unwrap();
        }
    }
    match job.take() {
        Ok(r) => r,
        Err(e) => resume_unwind(e),
    }
}

fn current_or_global() -> Arc<Pool> {
    match ctx() {
        Some((p, _)) => p,
        None => global(),
    }
}

// ---------------------------------------------------------------- public surface
pub struct FnContext {
    migrated: bool,
    _m: PhantomData<*mut ()>,
}
impl FnContext {
    pub fn migrated(&self) -> bool {
        self.migrated
    }
    fn new(m: bool) -> Self {
        Self {
            migrated: m,
            _m: PhantomData,
        }
    }
}

pub fn join<A, B, RA, RB>(a: A, b: B) -> (RA, RB)
where
    A: FnOnce() -> RA + Send,
    B: FnOnce() -> RB + Send,
    RA: Send,
    RB: Send,
{
    join_context(|_| a(), |_| b())
}

pub fn join_context<A, B, RA, RB>(a: A, b: B) -> (RA, RB)
where
    A: FnOnce(FnContext) -> RA + Send,
    B: FnOnce(FnContext) -> RB + Send,
    RA: Send,
    RB: Send,
{
    if !sim::active() {
        let ra = a(FnContext::new(false));
        let rb = b(FnContext::new(false));
        return (ra, rb);
    }
    let pool = current_or_global();
    in_pool(&pool.clone(), move |injected| join_on_worker(a, b, injected))
}

fn join_on_worker<A, B, RA, RB>(a: A, b: B, injected: bool) -> (RA, RB)
where
    A: FnOnce(FnContext) -> RA + Send,
    B: FnOnce(FnContext) -> RB + Send,
    RA: Send,
    RB: Send,
{
    let (pool, idx) = ctx().expect("join_on_worker outside a worker");
    sim::JOINS.fetch_add(1, Ordering::Relaxed);
    let job_b = StackJob::new(move |m: bool| b(FnContext::new(m)));
    {
        let mut st = pool.st.lock().unwrap();
        st.deques[idx].push_back(job_b.as_job_ref());
        pool.cv.notify_all();
    }
    // a real thief can take `b` and even finish it before `a` has started: without this switch
    // point a leaf that contains no synchronisation would always complete before its stolen sibling
    shuttle::thread::yield_now();
    let ra = catch_unwind(AssertUnwindSafe(|| a(FnContext::new(injected))));
    // wait for b: pop local jobs (b itself if nobody stole it), else steal / injector, else sleep
    loop {
        let next = {
            let mut st = pool.st.lock().unwrap();
            loop {
                if job_b.done() {
                    break None;
                }
                if let Some(j) = pool.find_work(&mut st, idx) {
                    break Some(j);
                }
                st = pool.cv.wait(st).unwrap();
            }
        };
        match next {
            None => break,
            Some((j, _)) if j.id == job_b.id => {
                sim::INLINE_B.fetch_add(1, Ordering::Relaxed);
                // popped back from our own deque: runs here, not migrated
                pool.execute(j, false);
                break;
            }
            Some((j, stolen)) => {
                sim::NESTED_WAIT_JOBS.fetch_add(1, Ordering::Relaxed);
                pool.execute(j, stolen);
            }
        }
    }
    let rb = job_b.take();
    match (ra, rb) {
        (Ok(x), Ok(y)) => (x, y),
        (Err(e), _) => resume_unwind(e),
        (_, Err(e)) => resume_unwind(e),
    }
}

pub fn max_num_threads() -> usize {
    65535
}
pub fn current_num_threads() -> usize {
    if !sim::active() {
        return 1;
    }
    current_or_global().n
}
pub fn current_thread_index() -> Option<usize> {
    if !sim::active() {
        return None;
    }
    ctx().map(|(_, i)| i)
}
pub fn current_thread_has_pending_tasks() -> Option<bool> {
    ctx().map(|(p, i)| !p.st.lock().unwrap().deques[i].is_empty())
}
#[derive(Clone, Copy, Debug, PartialEq, Eq)]
pub enum Yield {
    Executed,
    Idle,
}
pub fn yield_now() -> Option<Yield> {
    ctx().map(|_| Yield::Idle)
}
pub fn yield_local() -> Option<Yield> {
    ctx().map(|_| Yield::Idle)
}

pub struct Scope<'scope> {
    _m: PhantomData<Box<dyn FnOnce(&Scope<'scope>) + Send + Sync + 'scope>>,
}
pub struct ScopeFifo<'scope> {
    _m: PhantomData<Box<dyn FnOnce(&ScopeFifo<'scope>) + Send + Sync + 'scope>>,
}
impl<'scope> Scope<'scope> {
    pub fn spawn<BODY>(&self, body: BODY)
    where
        BODY: FnOnce(&Scope<'scope>) + Send + 'scope,
    {
        body(self)
    }
    pub fn spawn_broadcast<BODY>(&self, _body: BODY)
    where
        BODY: Fn(&Scope<'scope>, BroadcastContext<'_>) + Send + Sync + 'scope,
    {
        unimplemented!("rayon-core(sim): spawn_broadcast")
    }
}
impl<'scope> ScopeFifo<'scope> {
    pub fn spawn_fifo<BODY>(&self, body: BODY)
    where
        BODY: FnOnce(&ScopeFifo<'scope>) + Send + 'scope,
    {
        body(self)
    }
    pub fn spawn_broadcast<BODY>(&self, _body: BODY)
    where
        BODY: Fn(&ScopeFifo<'scope>, BroadcastContext<'_>) + Send + Sync + 'scope,
    {
        unimplemented!("rayon-core(sim): spawn_broadcast")
    }
}
pub fn scope<'scope, OP, R>(op: OP) -> R
where
    OP: FnOnce(&Scope<'scope>) -> R + Send,
    R: Send,
{
    op(&Scope { _m: PhantomData })
}
pub fn in_place_scope<'scope, OP, R>(op: OP) -> R
where
    OP: FnOnce(&Scope<'scope>) -> R,
{
    op(&Scope { _m: PhantomData })
}
pub fn scope_fifo<'scope, OP, R>(op: OP) -> R
where
    OP: FnOnce(&ScopeFifo<'scope>) -> R + Send,
    R: Send,
{
    op(&ScopeFifo { _m: PhantomData })
}
pub fn in_place_scope_fifo<'scope, OP, R>(op: OP) -> R
where
    OP: FnOnce(&ScopeFifo<'scope>) -> R,
{
    op(&ScopeFifo { _m: PhantomData })
}
pub fn spawn<F>(func: F)
where
    F: FnOnce() + Send + 'static,
{
    func()
}
pub fn spawn_fifo<F>(func: F)
where
    F: FnOnce() + Send + 'static,
{
    func()
}
pub struct BroadcastContext<'a> {
    idx: usize,
    n: usize,
    _m: PhantomData<&'a mut dyn FnMut()>,
}
impl<'a> BroadcastContext<'a> {
    pub fn index(&self) -> usize {
        self.idx
    }
    pub fn num_threads(&self) -> usize {
        self.n
    }
}
pub fn broadcast<OP, R>(_op: OP) -> Vec<R>
where
    OP: Fn(BroadcastContext<'_>) -> R + Sync,
    R: Send,
{
    unimplemented!("rayon-core(sim): broadcast")
}
pub fn spawn_broadcast<OP>(_op: OP)
where
    OP: Fn(BroadcastContext<'_>) + Send + Sync + 'static,
{
    unimplemented!("rayon-core(sim): spawn_broadcast")
}

#[derive(Debug)]
pub struct ThreadPoolBuildError {
    kind: ErrorKind,
}
#[derive(Debug)]
enum ErrorKind {
    GlobalPoolAlreadyInitialized,
}
impl fmt::Display for ThreadPoolBuildError {
    fn fmt(&self, f: &mut fmt::Formatter<'_>) -> fmt::Result {
        match self.kind {
            ErrorKind::GlobalPoolAlreadyInitialized => {
                f.write_str("The global thread pool has already been initialized.")
            }
        }
    }
}
impl Error for ThreadPoolBuildError {}
pub struct ThreadBuilder {
    _p: (),
}
#[derive(Default)]
pub struct ThreadPoolBuilder {
    num_threads: usize,
}
impl ThreadPoolBuilder {
    pub fn new() -> Self {
        Self::default()
    }
    pub fn num_threads(mut self, n: usize) -> Self {
        self.num_threads = n;
        self
    }
    pub fn build(self) -> Result<ThreadPool, ThreadPoolBuildError> {
        if !sim::active() {
            return Ok(ThreadPool { pool: Pool::inline(self.num_threads.max(1)) });
        }
        Ok(ThreadPool {
            pool: Pool::new(self.num_threads),
        })
    }
    pub fn build_global(self) -> Result<(), ThreadPoolBuildError> {
        if !sim::active() {
            let mut g = GLOBAL.lock().unwrap();
            if g.is_some() {
                return Err(ThreadPoolBuildError { kind: ErrorKind::GlobalPoolAlreadyInitialized });
            }
            *g = Some(Pool::inline(self.num_threads.max(1)));
            return Ok(());
        }
        let mut g = GLOBAL.lock().unwrap();
        if g.is_some() {
            sim::BUILD_GLOBAL_REFUSED.fetch_add(1, Ordering::Relaxed);
            return Err(ThreadPoolBuildError {
                kind: ErrorKind::GlobalPoolAlreadyInitialized,
            });
        }
        sim::GLOBAL_CONFIGURED.store(true, Ordering::Relaxed);
        *g = Some(Pool::new(self.num_threads));
        Ok(())
    }
    pub fn thread_name<F>(self, _closure: F) -> Self
    where
        F: FnMut(usize) -> String + 'static,
    {
        self
    }
    pub fn stack_size(self, _s: usize) -> Self {
        self
    }
}
pub struct ThreadPool {
    pool: Arc<Pool>,
}
impl ThreadPool {
    pub fn install<OP, R>(&self, op: OP) -> R
    where
        OP: FnOnce() -> R + Send,
        R: Send,
    {
        if !sim::active() {
            return op();
        }
        in_pool(&self.pool, |_| op())
    }
    pub fn current_num_threads(&self) -> usize {
        self.pool.n
    }
    pub fn current_thread_index(&self) -> Option<usize> {
        match ctx() {
            Some((p, i)) if Arc::ptr_eq(&p, &self.pool) => Some(i),
            _ => None,
        }
    }
    pub fn join<A, B, RA, RB>(&self, a: A, b: B) -> (RA, RB)
    where
        A: FnOnce() -> RA + Send,
        B: FnOnce() -> RB + Send,
        RA: Send,
        RB: Send,
    {
        self.install(|| join(a, b))
    }
}
impl Drop for ThreadPool {
    fn drop(&mut self) {
        // A pool dropped while a panic unwinds through its owner (ska: `pool.install(..)` re-raising
        // a worker's panic) must not touch shuttle primitives: shuttle treats any release during a
        // panic as the end of the test and closes the semaphore under the waiting workers. The real
        // pool just tells its workers to exit; here that is deferred to `sim::shutdown()`.
        if std::thread::panicking() {
            ZOMBIES.lock().unwrap().push(self.pool.clone());
            return;
        }
        self.pool.terminate();
    }
}
impl fmt::Debug for ThreadPool {
    fn fmt(&self, f: &mut fmt::Formatter<'_>) -> fmt::Result {
        f.debug_struct("ThreadPool").field("num_threads", &self.pool.n).finish()
    }
}
